"""Static text that goes into evidence files (rules, assumptions, real-vs-stub table)."""

EVAL_KEY = {
    "C05": "fault_runs",
    "C15": "fault_runs",
    "C13": "c13_executions",
    "C14": "runs",
    "C10": "runs",
}

RULE = {
    "C05": "evaluations = renders executed with one injected fault (one dynamic probe invocation k of a generated "
           "program fails with one fault kind) plus tolerated-fault renders; cases come from the rapid-seeded probe "
           "grammar (DESIGN §3). distinct_nontrivial = number of distinct (program text, fault point k, fault kind) "
           "triples (64-bit hash) in which the faulted invocation actually happened and the program has at least one "
           "evaluator frame between the probe and the top-level tag or lives in a block/partial.",
    "C15": "evaluations = renders executed with one injected fault whose error line was compared with the line of the "
           "tag that contains the failing call, plus shifted re-runs; distinct_nontrivial = distinct (program text, "
           "fault point, fault kind) triples whose failing tag is not on line 1 (so the line is not trivially right).",
    "C13": "evaluations = template executions compared with the run-alone reference inside generated histories "
           "(Render/Parse+Exec/Clone/NewTemplate/BuffaloRenderer/RenderR/CacheSet over a family of programs, cache "
           "on/off/cold/warm, map-order policy per op; hand-built Template values, the caller's nested data objects and "
           "helpers map re-used across renders; results remembered across cases and a fixed corpus compared with "
           "pristine-process renders); distinct_nontrivial = distinct histories (hash of the op "
           "sequence and program texts) with at least 3 executions over at least 2 programs.",
    "C14": "evaluations = simulated concurrent runs (2-8 caller tasks on one context, 2-10 executing templates, "
           "quick; up to 32, thorough; goroutines started by plush itself become further tasks) under a seeded "
           "scheduler with the Go race detector as oracle, GOMAXPROCS 16/1/2/4 rotating over the worker processes; distinct_nontrivial = distinct interleaving signatures (hash of the "
           "sequence of (task, yield site) pairs) among runs with at least one context switch.",
    "C10": "evaluations = generated histories of NewContext*/New/Set/Value/Has executed against plush and the "
           "reference model with a full cross-check after every operation; distinct_nontrivial = distinct histories "
           "(hash of the op list) with at least 3 operations over at least 2 live contexts.",
}

ASSUMPTIONS = {
    "C05": [
        "faults arrive only through caller-supplied functions (helpers, methods, partial feeder); plush has no other I/O",
        "programs are drawn from the probe grammar of DESIGN §3; constructs outside it are not covered",
        "a clean batch is evidence, not proof: seeded sampling of programs, exhaustive only over the fault points of each sampled program (quick: up to 24 per program)",
    ],
    "C15": [
        "scope: run-time errors caused by an injected fault or by a generated failing statement, and the syntax errors listed below (DESIGN §5.2, §16)",
        "the statement of every generated tag begins on the line on which its tag begins; single-statement tags are also split across lines after commas, opening brackets and binary operators (the tag still begins on the same line); a statement that begins on a later line than its tag (multi-statement tags) is not generated: the property text does not say whether the tag's or the statement's line is meant",
        "syntax errors: curated single-line broken tags, at top level after arbitrary material, or ending the input (also inside a block that is still open)",
        "probes in else-if conditions are excluded (the property text does not say which line is meant)",
    ],
    "C13": [
        "map iteration order and what sync.Pool.Get returns are taken from the simulator seams, not from the Go runtime; maps iterated inside dependencies (encoding/json sorts keys itself) are outside the seam",
        "the generated programs assign nothing into context data, so renders over re-used caller data objects must equal renders over fresh ones",
        "structural snapshots use node addresses as identities, sound within one process because Go's GC does not move heap objects",
    ],
    "C14": [
        "context switches happen only at synchronisation points (mutex operations, sync/atomic calls, task start/end); sound for race-free executions, and racy ones are reported by the detector (DESIGN §2.3)",
        "the Go race detector has no false positives but can miss a race hidden by an accidental happens-before edge or its bounded history",
        "data the caller itself shares between contexts, concurrent Helpers.Add and toggling CacheEnabled while rendering are outside the property",
    ],
    "C10": [
        "one simulated client; no fault kind applies; 10 keys incl. helper names, a wrapped-context key, dotted and prefixed keys, plus bulk keys k0..k69; values nil, ints, strings, bool, typed nil, empty slice, func; chains up to 130 New() levels deep",
        "observations of a helper name are not compared on contexts built after a user bound that name to nil (DESIGN §5.5)",
    ],
}

REAL_VS_STUB = {
    "real": ["lexer", "parser", "ast", "evaluator (compiler.go)", "Context", "template cache", "HelperMap",
             "built-in helpers used by workloads (partial, contentFor/Of, htmlEscape, truncate, raw, toJSON, len, range/until/between)",
             "sync.Mutex objects", "Go race runtime (C14)"],
    "simulated": ["goroutine scheduling (baton scheduler, simrt)", "mutex blocking (TryLock loop under the scheduler)",
                  "blocking of sync.Cond / Once / WaitGroup, channel send / receive / close / range / select (simrt; real primitives still give the race detector the real happens-before edges)",
                  "goroutines started by the code under test (become scheduler tasks; none on the pinned tree)",
                  "map iteration order (simrt.Entries / OrderValues)", "user helpers (recording probes with fault plan)",
                  "partial feeder (in-memory file system with faults)", "io.Reader (chunking reader)",
                  "sync.Pool (per-pool list; reuse vs. fresh decided by the run's seeded stream; Put -> Get edge given to the race detector)",
                  "process environment read by env()/envOr() (set by the harness)"],
}

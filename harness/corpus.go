package harness

import (
	"encoding/json"
	"flag"
	"fmt"
	"os"
	"strconv"
	"testing"

	plush "github.com/gobuffalo/plush/v5"
	"github.com/gobuffalo/plush/v5/simrt"
	"pgregory.net/rapid"
)

// The pristine-process reference (DESIGN §16.5).
//
// State that lives outside templates and contexts (package-level memo tables,
// interning, pools, counters) converges after first use: inside one process a
// result that depends on it is wrong consistently, so no comparison within a
// process sees it. C13 says a render is a function of template and data, so it
// must also be what a process that has done NOTHING else renders. A fixed
// corpus of programs (generated from the check's seed only (VERIF_CORPUS_SEED), identical in every
// process) is rendered once per program in a process of its own before the
// workers start; workers re-render corpus programs in the middle of their
// histories and compare with that pristine result.

const corpusSize = 64
const corpusVariants = 3

var corpus []*Program

// buildCorpus generates the corpus: a pure function of VERIF_SEED and the harness code.
func buildCorpus(t *testing.T) {
	if corpus != nil {
		return
	}
	seed := splitmix64(envUint("VERIF_CORPUS_SEED", envUint("VERIF_SEED", 1))^hashStr("corpus")) | 1
	oldSeed, oldChecks := flag.Lookup("rapid.seed").Value.String(), flag.Lookup("rapid.checks").Value.String()
	_ = flag.Set("rapid.seed", strconv.FormatUint(seed, 10))
	_ = flag.Set("rapid.checks", strconv.Itoa(corpusSize))
	var progs []*Program
	rapid.Check(t, func(rt *rapid.T) {
		if len(progs) < corpusSize {
			progs = append(progs, genProgram(rt, genOpts{tolerant: true, toleratedOnly: true, lateLet: true, probes: true, mapRegions: true, pureMapBody: true, sideEffects: true, failing: true, failPct: 15, probePct: 20, maxPieces: 5, litModePct: 10}))
		}
	})
	_ = flag.Set("rapid.seed", oldSeed)
	_ = flag.Set("rapid.checks", oldChecks)
	corpus = append(progs, curatedCorpus()...)
}

// curatedCorpus: small hand-written templates, one built-in helper or evaluator feature each, with SEVERAL
// distinct arguments per helper — process-wide state keyed by a helper's arguments (memo tables, bounded caches,
// interning) is exercised by asking the same helper different things: 225 distinct regular expressions that
// disagree with each other on the operands, the same environment variable with different defaults, the same method
// name through T and *T, the same helper over different types.
func curatedCorpus() []*Program {
	var texts []string
	add := func(t ...string) { texts = append(texts, t...) }
	add(`<%= envOr("VERIF_ENV_MISSING", "one") %>`, `<%= envOr("VERIF_ENV_MISSING", "two") %>|<%= envOr("VERIF_ENV_MISSING", s1) %>`,
		`<%= env("VERIF_ENV_MISSING") %>`, `<%= env("VERIF_ENV_A") %>|<%= envOr("VERIF_ENV_A", "dflt") %>`, `<%= envOr("VERIF_ENV_MISSING_2", "") %>|<%= env("VERIF_ENV_MISSING_2") %>`)
	for i := 0; i < 125; i++ {
		add(fmt.Sprintf(`<%%= "hello world" ~= "^.{%d}[a-%c]" %%>|<%%= s1 ~= "^.{%d}[a-%c]" %%>`, i%5, 'b'+rune(i/5), i%5, 'b'+rune(i/5)))
	}
	for lo := 0; lo < 10; lo++ {
		for hi := 10; hi < 20; hi++ {
			add(fmt.Sprintf(`<%%= "hello world" ~= "^.{%d,%d}$" %%>|<%%= (s1 + s2 + s1) ~= "^.{%d,%d}$" %%>`, lo, hi, lo, hi))
		}
	}
	add(`<%= pathFor(car) %>`, `<%= pathFor(car2) %>`, `<%= pathFor(page) %>`, `<%= pathFor("a/b") %>|<%= pathFor(car) %>|<%= pathFor(car2) %>`)
	for _, m := range []string{"dv.Balance()", "dp.Balance()", "dv.Archive()", "dp.Archive()", "dp.Title()", "dv.Title()", "dp.Zed()", "dv.Zed()"} {
		add("<%= " + m + " %>")
	}
	add(`<%= obj.Name %>|<%= obj.Inner.Label %>|<%= objs[1].Tags[0] %>|<%= om.x.N %>|<%= vobj.Name %>`, `<%= obj.Greet("x") %>|<%= obj.Add(1, 2) %>|<%= obj.Self().Self().Name %>`)
	add(`<%= for (i) in range(1, 2) { %><%= for (j) in range(1, 3) { %><%= i * 10 + j %> <% } %><% } %>`,
		`<% let r = range(1, 3) %><%= for (i) in r { %><%= i %>,<% } %>|<%= for (i) in r { %><%= i %>,<% } %>|<%= for (i) in until(3) { %><%= i %><% } %>|<%= for (i) in between(0, 4) { %><%= i %><% } %>`,
		`<%= for (g) in groupBy(2, many) { %>[<%= len(g) %>]<% } %>`)
	for _, h := range []string{"upcase", "downcase", "capitalize", "pluralize", "singularize", "camelize", "dasherize", "underscore", "ordinalize", "camelize_down_first"} {
		add(fmt.Sprintf(`<%%= %s("first_word") %%>|<%%= %s(s2) %%>|<%%= %s("3 Mice") %%>`, h, h, h))
	}
	add(`<%= truncate("a long sentence of words", {"size": 10}) %>|<%= truncate(s1 + s2 + s1, {"size": 7, "trail": "~"}) %>|<%= truncate("short") %>`,
		`<%= len(xs) %>|<%= len(s1) %>|<%= len(mi) %>|<%= len("") %>`, `<%= toJSON(xs) %>|<%= json(ss) %>|<%= toJSON({"a": n1, "b": [1, s1]}) %>`,
		`<%= raw(s1) %>|<%= s1 %>|<%= htmlEscape(s1) %>|<%= jsEscape(s1) %>`, `<%= inspect(one) %>|<%= debug(xs) %>`,
		`<%= tm %>|<% let TIME_FORMAT = "2006" %><%= tm %>`, `<%= stg %>|<%= htm %>|<%= f64 * 2.0 %>|<%= 7 / 2 %>|<%= "a" + 1 + true %>`,
		`<% contentFor("cZ") { %>[<%= label %>]<% } %><%= contentOf("cZ", {"label": s2}) %>|<%= contentOf("nosuch") { %>default<% } %>`,
		`<% let h = {"a": 1, "a": 2, "b": n1} %><%= toJSON(h) %>|<% let a = [1, 2, 3] %><% a[1] = n2 %><%= a %>`,
		`<% let f = fn(x) { return x * 2 } %><%= f(n1) %>|<%= f(f(1)) %>`,
		// templates that are rejected: the wording of a syntax error is part of the result
		`<% let fn = 1 %>`, `<% let func = 1 %>`, `<%= if (true) { %>x<% } else fn %>`, `<% for = 2 %>`, `<%= (1 + 2 %>`, `<%= return %>`, `<% let in = nil %>`)
	out := make([]*Program, 0, len(texts))
	for _, t := range texts {
		out = append(out, &Program{Main: t, Partials: map[string]string{}, Sites: map[int]*Site{}, FeederSites: map[string]*Site{}, Features: map[string]int{}})
	}
	return out
}

// renderAlone: fresh parse, fresh context, cache off, canonical map order.
func renderAlone(p *Program, variant int) c13Result {
	plush.CacheEnabled = false
	simrt.SetMapOrder(simrt.Canonical, 0)
	rt := newRuntime(p, true)
	rt.Variant = variant
	tm, err := simNewTemplate(p.Main)
	var out string
	if err == nil {
		out, err = safeExec(tm, plush.NewContextWith(rt.contextData()))
	}
	return result(out, err, rt)
}

type corpusRef struct {
	Index   int      `json:"index"`
	TextSum uint64   `json:"text_hash"`
	Results []string `json:"results"` // one per data variant
}

var corpusRefs map[int]corpusRef

// loadCorpusRefs reads the pristine references the driver computed (VERIF_CORPUS_REF); without them the corpus
// comparison is off (dev runs).
func loadCorpusRefs(t *testing.T) {
	path := os.Getenv("VERIF_CORPUS_REF")
	if path == "" || corpusRefs != nil {
		return
	}
	b, err := os.ReadFile(path)
	if err != nil {
		t.Fatalf("VERIF-INTERNAL cannot read corpus references: %v", err)
	}
	var refs []corpusRef
	if err := json.Unmarshal(b, &refs); err != nil {
		t.Fatalf("VERIF-INTERNAL corpus references: %v", err)
	}
	buildCorpus(t)
	corpusRefs = map[int]corpusRef{}
	for _, r := range refs {
		if r.Index >= len(corpus) || hashStr(corpus[r.Index].Main) != r.TextSum {
			t.Fatalf("VERIF-INTERNAL corpus program %d of this process differs from the one the reference process rendered (generation is not a function of the seed?)", r.Index)
		}
		corpusRefs[r.Index] = r
	}
}

// corpusOp re-renders one corpus program alone, in the middle of whatever this process has done so far, and
// compares with what a pristine process rendered.
func corpusOp(t *rapid.T) {
	if len(corpusRefs) == 0 {
		return
	}
	for n := 1 + uni(t, "ncorpus", 4); n > 1; n-- {
		corpusOne(t)
	}
	corpusOne(t)
}

func corpusOne(t *rapid.T) {
	k := uni(t, "corpusprogram", len(corpus))
	ref, ok := corpusRefs[k]
	if !ok {
		return
	}
	v := uni(t, "corpusvariant", corpusVariants)
	got := renderAlone(corpus[k], v).String()
	count("c13_corpus_renders", 1)
	if got != ref.Results[v] {
		p := corpus[k]
		violate(t, "C13", "same-template-same-data-same-result-in-every-process", "c13:result-differs-from-pristine-process", func() map[string]interface{} {
			return map[string]interface{}{"corpus_program": k, "program": p.Main, "partials": p.Partials, "js": p.JS, "data_variant": v,
				"result_in_a_process_that_rendered_nothing_else": ref.Results[v], "result_in_this_process_now": got,
				"message": fmt.Sprintf("corpus program %d rendered alone (fresh parse, fresh context, cache off, canonical map order) gives another result in this worker process than in a process that rendered nothing else: something outside template and data decides the result; replay re-runs the worker (the state was left by earlier cases)", k)}
		})
	}
}

package harness

import (
	"encoding/json"
	"flag"
	"fmt"
	"os"
	"strconv"
	"testing"

	plush "github.com/gobuffalo/plush/v5"
	"github.com/gobuffalo/plush/v5/simrt"
	"pgregory.net/rapid"
)

// The pristine-process reference (DESIGN §16.5).
//
// State that lives outside templates and contexts (package-level memo tables,
// interning, pools, counters) converges after first use: inside one process a
// result that depends on it is wrong consistently, so no comparison within a
// process sees it. C13 says a render is a function of template and data, so it
// must also be what a process that has done NOTHING else renders. A fixed
// corpus of programs (generated from the check's seed only (VERIF_CORPUS_SEED), identical in every
// process) is rendered once per program in a process of its own before the
// workers start; workers re-render corpus programs in the middle of their
// histories and compare with that pristine result.

const corpusSize = 64
const corpusVariants = 3

var corpus []*Program

// buildCorpus generates the corpus: a pure function of VERIF_SEED and the harness code.
func buildCorpus(t *testing.T) {
	if corpus != nil {
		return
	}
	seed := splitmix64(envUint("VERIF_CORPUS_SEED", envUint("VERIF_SEED", 1))^hashStr("corpus")) | 1
	oldSeed, oldChecks := flag.Lookup("rapid.seed").Value.String(), flag.Lookup("rapid.checks").Value.String()
	_ = flag.Set("rapid.seed", strconv.FormatUint(seed, 10))
	_ = flag.Set("rapid.checks", strconv.Itoa(corpusSize))
	var progs []*Program
	rapid.Check(t, func(rt *rapid.T) {
		if len(progs) < corpusSize {
			progs = append(progs, genProgram(rt, genOpts{tolerant: true, toleratedOnly: true, lateLet: true, probes: true, mapRegions: true, pureMapBody: true, sideEffects: true, failing: true, failPct: 15, probePct: 20, maxPieces: 5, litModePct: 10}))
		}
	})
	_ = flag.Set("rapid.seed", oldSeed)
	_ = flag.Set("rapid.checks", oldChecks)
	corpus = progs
}

// renderAlone: fresh parse, fresh context, cache off, canonical map order.
func renderAlone(p *Program, variant int) c13Result {
	plush.CacheEnabled = false
	simrt.SetMapOrder(simrt.Canonical, 0)
	rt := newRuntime(p, true)
	rt.Variant = variant
	tm, err := simNewTemplate(p.Main)
	var out string
	if err == nil {
		out, err = safeExec(tm, plush.NewContextWith(rt.contextData()))
	}
	return result(out, err, rt)
}

type corpusRef struct {
	Index   int      `json:"index"`
	TextSum uint64   `json:"text_hash"`
	Results []string `json:"results"` // one per data variant
}

var corpusRefs map[int]corpusRef

// loadCorpusRefs reads the pristine references the driver computed (VERIF_CORPUS_REF); without them the corpus
// comparison is off (dev runs).
func loadCorpusRefs(t *testing.T) {
	path := os.Getenv("VERIF_CORPUS_REF")
	if path == "" || corpusRefs != nil {
		return
	}
	b, err := os.ReadFile(path)
	if err != nil {
		t.Fatalf("VERIF-INTERNAL cannot read corpus references: %v", err)
	}
	var refs []corpusRef
	if err := json.Unmarshal(b, &refs); err != nil {
		t.Fatalf("VERIF-INTERNAL corpus references: %v", err)
	}
	buildCorpus(t)
	corpusRefs = map[int]corpusRef{}
	for _, r := range refs {
		if r.Index >= len(corpus) || hashStr(corpus[r.Index].Main) != r.TextSum {
			t.Fatalf("VERIF-INTERNAL corpus program %d of this process differs from the one the reference process rendered (generation is not a function of the seed?)", r.Index)
		}
		corpusRefs[r.Index] = r
	}
}

// corpusOp re-renders one corpus program alone, in the middle of whatever this process has done so far, and
// compares with what a pristine process rendered.
func corpusOp(t *rapid.T) {
	if len(corpusRefs) == 0 {
		return
	}
	k := uni(t, "corpusprogram", len(corpus))
	ref, ok := corpusRefs[k]
	if !ok {
		return
	}
	v := uni(t, "corpusvariant", corpusVariants)
	got := renderAlone(corpus[k], v).String()
	count("c13_corpus_renders", 1)
	if got != ref.Results[v] {
		p := corpus[k]
		violate(t, "C13", "same-template-same-data-same-result-in-every-process", "c13:result-differs-from-pristine-process", func() map[string]interface{} {
			return map[string]interface{}{"corpus_program": k, "program": p.Main, "partials": p.Partials, "js": p.JS, "data_variant": v,
				"result_in_a_process_that_rendered_nothing_else": ref.Results[v], "result_in_this_process_now": got,
				"message": fmt.Sprintf("corpus program %d rendered alone (fresh parse, fresh context, cache off, canonical map order) gives another result in this worker process than in a process that rendered nothing else: something outside template and data decides the result; replay re-runs the worker (the state was left by earlier cases)", k)}
		})
	}
}

package harness

import (
	"testing"

	"pgregory.net/rapid"
)

// TestC14Ctx — scenario S4: concurrent Set/Value/Has/New on one context.
func TestC14Ctx(t *testing.T) {
	runBatches(t, "c14ctx", func(t *rapid.T) {
		if uni(t, "s4or5", 4) == 0 {
			c14ChainRun(t)
		} else {
			c14CtxRun(t)
		}
		count("runs", 1)
	})
}

// TestC14Exec — scenarios S1–S3: shared templates, shared parent, cache.
func TestC14Exec(t *testing.T) {
	runBatches(t, "c14exec", func(t *rapid.T) {
		c14ExecRun(t)
		count("runs", 1)
	})
}

module verifharness

go 1.23

toolchain go1.23.5

require (
	github.com/anishathalye/porcupine v1.3.0
	github.com/gobuffalo/plush/v5 v5.0.0
	pgregory.net/rapid v1.3.0
)

require github.com/gobuffalo/flect v1.0.2 // indirect

replace github.com/gobuffalo/plush/v5 => ../plush

package harness

import (
	"testing"

	"pgregory.net/rapid"
)

// TestFault — C05/C15: fault placement under every evaluator frame.
func TestFault(t *testing.T) {
	runBatches(t, "fault", func(t *rapid.T) {
		faultRun(t)
		count("runs", 1)
	})
}

package harness

import (
	"testing"

	"pgregory.net/rapid"
)

// TestC13 — histories of parse/exec/clone/cache operations vs. run-alone results.
func TestC13(t *testing.T) {
	runBatches(t, "c13", func(t *rapid.T) {
		c13Run(t)
		count("runs", 1)
	})
}

package harness

import (
	"testing"

	"pgregory.net/rapid"
)

// TestC13 — histories of parse/exec/clone/cache operations vs. run-alone results.
func TestC13(t *testing.T) {
	loadCorpusRefs(t)
	runBatches(t, "c13", func(t *rapid.T) {
		if len(corpusRefs) > 0 && uni(t, "corpusop", 6) == 0 {
			corpusOp(t)
		}
		c13Run(t)
		count("runs", 1)
	})
}

package harness

import (
	"fmt"
	"strings"

	plush "github.com/gobuffalo/plush/v5"
	"github.com/gobuffalo/plush/v5/simrt"
	"pgregory.net/rapid"
)

// C10 inside renders (DESIGN §16.7). plush creates scopes of its own (loop,
// function, block, partial scopes) and hands them to helpers; helpers hand
// contexts of their own to plush (BlockWith). The property speaks about every
// tree of contexts, so it holds for these too:
//
//   - a scope a helper kept is, once the render has returned, a context nobody
//     writes to any more: what it observes must never change again, whatever
//     is rendered afterwards (recycled or aliased scopes show a later loop's
//     bindings through it);
//   - a root context a helper made itself and lent to BlockWith is related to
//     no scope of the render: lending it must not change what it observes, then
//     or later (a Set on one context never changes what unrelated ones see).
//
// The observations are made through the public API only (Value / Has).

type keptCtx struct {
	c     *plush.Context
	where string
	keys  []string
	at1   []string // observation right after the render that created it returned
	kind  string   // "scope handed to a helper" / "root lent to BlockWith"
}

type ctxProbe struct {
	keys    []string
	pending []*keptCtx // kept during the render that is running now
	kept    []*keptCtx // from renders that have returned
	bad     string     // first violation seen from inside a helper call (reported by the engine)
	badSig  string
	render  int
}

func observeCtx(c *plush.Context, keys []string) []string {
	out := make([]string, len(keys))
	for i, k := range keys {
		v := c.Value(k)
		s := describeReal(v)
		if h := c.Has(k); h != (v != nil) {
			s += fmt.Sprintf(" BUT Has=%v", h)
		}
		out[i] = s
	}
	return out
}

func (p *ctxProbe) observe(c *plush.Context) []string { return observeCtx(c, p.keys) }

// recheck compares every context kept by earlier renders with its first observation.
func (p *ctxProbe) recheck(when string) {
	if p.bad != "" {
		return
	}
	for _, k := range p.kept {
		now := observeCtx(k.c, k.keys)
		for i := range now {
			if now[i] != k.at1[i] {
				p.bad = fmt.Sprintf("%s (%s) observed %s = %s right after its render returned, and %s %s; nobody holds it but the helper, nothing was Set on it or above it", k.kind, k.where, k.keys[i], k.at1[i], now[i], when)
				p.badSig = "kept-context-changes:" + strings.ReplaceAll(k.kind, " ", "-")
				return
			}
		}
	}
}

func (p *ctxProbe) keep(help plush.HelperContext) {
	p.recheck("during a later render (seen from inside a helper call)")
	c, ok := help.Context.(*plush.Context)
	if !ok || len(p.pending) > 40 {
		return
	}
	p.pending = append(p.pending, &keptCtx{c: c, where: fmt.Sprintf("render %d, helper call %d", p.render, len(p.pending)+1), keys: p.keys, kind: "scope handed to a helper"})
}

func (p *ctxProbe) detached(root *plush.Context, before []string) {
	after := observeCtx(root, p.keys)
	for i := range after {
		if after[i] != before[i] && p.bad == "" {
			p.bad = fmt.Sprintf("a root context made by a helper observed %s = %s before it was lent to BlockWith and %s afterwards", p.keys[i], before[i], after[i])
			p.badSig = "lent-root-changes"
		}
	}
	if len(p.pending) <= 40 {
		p.pending = append(p.pending, &keptCtx{c: root, where: fmt.Sprintf("render %d", p.render), keys: p.keys, kind: "root lent to BlockWith"})
	}
}

// endRender: the render has returned; first observation of what it left behind.
func (p *ctxProbe) endRender() {
	for _, k := range p.pending {
		k.at1 = observeCtx(k.c, k.keys)
		p.kept = append(p.kept, k)
	}
	p.pending = nil
	p.render++
	p.recheck("after a later render returned")
}

func c10ExecRun(t *rapid.T) {
	mp := drawMapOrder(t)
	_ = mp
	nprog := rapid.IntRange(2, 5).Draw(t, "nprog")
	var progs []*Program
	keys := []string{"n1", "s1", "bw", "label", "pa", "zz", "len", "xs"}
	for i := 0; i < nprog; i++ {
		p := genProgram(t, genOpts{tolerant: true, toleratedOnly: true, lateLet: true, ctxProbes: true, mapRegions: false, maxPieces: 5, probes: false})
		progs = append(progs, p)
		for _, n := range p.Names {
			if len(keys) < 40 {
				keys = append(keys, n)
			}
		}
	}
	probe := &ctxProbe{keys: keys}
	nrender := rapid.IntRange(2, 8).Draw(t, "nrender")
	var hist []string
	det := func(msg string) func() map[string]interface{} {
		return func() map[string]interface{} {
			var ps []interface{}
			for i, p := range progs {
				ps = append(ps, map[string]interface{}{"program": i, "text": p.Main, "partials": p.Partials})
			}
			return map[string]interface{}{"programs": ps, "renders": hist, "observed_keys": keys, "message": msg}
		}
	}
	plush.CacheEnabled = rapid.Bool().Draw(t, "cache")
	defer func() { plush.CacheEnabled = false; plush.VerifResetCache() }()
	for r := 0; r < nrender; r++ {
		i := uni(t, "prog", nprog)
		rt := newRuntime(progs[i], true)
		rt.Variant = uni(t, "variant", 3)
		rt.Ctx = probe
		hist = append(hist, fmt.Sprintf("render %d: program %d, data variant %d", r, i, rt.Variant))
		var err error
		if uni(t, "childrender", 3) == 0 {
			// the caller renders with a CHILD of its base context; afterwards it rebinds, on the base, names the
			// template only reads: the child has no binding of its own for them, so it observes the new values
			base := plush.NewContextWith(rt.contextData())
			child, _ := base.New().(*plush.Context)
			_, err = safeRender(progs[i].Main, child)
			count("c10exec_child_renders", 1)
			for _, x := range []string{"objs", "om", "obj", "nobjs", "nm", "car", "page", "many", "mi", "anc0"} {
				sentinel := "set on the base after the render: " + x
				base.Set(x, sentinel)
				if got := child.Value(x); got != sentinel {
					hist = append(hist, fmt.Sprintf("render %d: program %d, data variant %d, with base.New()", r, i, rt.Variant))
					violate(t, "C10", "value-is-the-nearest-binding", "c10exec:render-left-a-shadow-binding", det(fmt.Sprintf("after rendering program %d with child := base.New(), base.Set(%q, sentinel) is not what child.Value(%q) returns (%s): the render left a binding of %q in the caller's child context although the template never binds that name", i, x, x, describeReal(got), x)))
					return
				}
			}
		} else {
			_, err = rt.render()
		}
		count("c10exec_renders", 1)
		if err != nil {
			count("c10exec_renders_failed", 1)
		}
		probe.endRender()
		// scope snippets: sibling scopes, private scopes and earlier activations are not observable
		if exp := progs[i].ScopeExpect; len(exp) > 0 {
			obs := rt.ScopeObs
			count("c10exec_scope_snippet_renders", 1)
			bad := len(obs) > len(exp) || (err == nil && len(obs) != len(exp))
			for x := 0; x < len(obs) && x < len(exp); x++ {
				if obs[x] != exp[x] {
					bad = true
				}
			}
			if bad {
				violate(t, "C10", "a-set-is-not-observable-from-sibling-scopes", "c10exec:scope-snippet", det(fmt.Sprintf("render %d of program %d: the sibobs() calls observed %v, expected %v (render error: %v)", r, i, obs, exp, err)))
				return
			}
		}
		if probe.bad != "" {
			violate(t, "C10", "a-context-nobody-writes-to-observes-the-same-for-ever", "c10exec:"+probe.badSig, det(probe.bad))
			return
		}
	}
	count("c10exec_kept_contexts", int64(len(probe.kept)))
	if len(probe.kept) > 0 {
		seen("c10", hashStr(append([]string{"exec"}, hist...)...))
	}
	_ = simrt.Canonical
}

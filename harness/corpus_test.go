package harness

import (
	"encoding/json"
	"fmt"
	"os"
	"testing"
)

// TestCorpusRef renders ONE corpus program (VERIF_CORPUS_INDEX) in this otherwise idle process and writes the
// results to VERIF_CORPUS_OUT.
func TestCorpusRef(t *testing.T) {
	idx := int(envInt("VERIF_CORPUS_INDEX", -1))
	outPath := os.Getenv("VERIF_CORPUS_OUT")
	if idx == -1 || outPath == "" {
		t.Skip("driver-only")
	}
	buildCorpus(t)
	if idx == -2 {
		// the driver asks how many programs there are
		_ = os.WriteFile(outPath, []byte(fmt.Sprintf("{\"size\": %d}", len(corpus))), 0o644)
		return
	}
	if idx >= len(corpus) {
		t.Fatalf("VERIF-INTERNAL corpus has %d programs, index %d asked", len(corpus), idx)
	}
	ref := corpusRef{Index: idx, TextSum: hashStr(corpus[idx].Main)}
	for v := 0; v < corpusVariants; v++ {
		ref.Results = append(ref.Results, renderAlone(corpus[idx], v).String())
	}
	b, _ := json.Marshal(ref)
	if err := os.WriteFile(outPath, b, 0o644); err != nil {
		t.Fatal(err)
	}
}

package harness

import (
	"fmt"
	"sort"
	"strings"
	"time"

	"github.com/anishathalye/porcupine"

	plush "github.com/gobuffalo/plush/v5"
	"github.com/gobuffalo/plush/v5/simrt"
	"pgregory.net/rapid"
)

// C14 scenarios S1–S3 (DESIGN.md §5.4): one parsed template executed by many
// tasks with separate contexts (own roots, or children of one shared parent),
// and concurrent Parse/Render/CacheSet with the cache enabled. Oracles: race
// detector, deadlock / step budget, every result equal to the same execution
// run alone, cached templates carry their own text, parsed programs unchanged.

// layoutText is executed after a page with the page's context (the
// page + layout flow of buffalo): it pulls in whatever contentFor blocks the
// page registered, with defaults for the others.
const layoutText = `<html><%= contentOf("cA", {"label": "LA"}) { %>no A<% } %>|<%= contentOf("cB", {"label": "LB"}) { %>no B<% } %>|<%= contentOf("cC", {"label": n1}) { %>no C<% } %>|<%= contentOf("cD", {"label": "LD"}) { %>no D<% } %></html>`

// uni3 maps a small integer to 0..1 deterministically (no draw inside tasks).
func uni3(n int) int { return n % 2 }

type cacheKeyed struct {
	text string
	in   cacheIn
}

type execOp struct {
	kind    int // 0 Exec shared template, 1 Parse+Exec, 2 Render, 3 CacheSet+Render, 4 Clone+Exec, 5 page then layout with ONE context, 6 NewTemplate+Exec inside the task, 7 RenderR, 8 layout on a child of the page's context, 9 BuffaloRenderer with one shared helpers map
	prog    int
	variant int
}

func (o execOp) String() string {
	k := [...]string{"Exec(shared template)", "Parse+Exec", "Render", "CacheSet(NewTemplate)+Render", "Clone+Exec", "Exec(page) then Exec(layout) with the same context", "NewTemplate+Exec (parsed by the task itself)", "RenderR (text from a reader)", "Exec(layout) on a child of the context that rendered the page", "BuffaloRenderer with the application's ONE helpers map"}[o.kind]
	return fmt.Sprintf("%s prog %d data %d", k, o.prog, o.variant)
}

type execRes struct {
	out, err, log string
	input         string // Input of the template a Parse returned
	cacheOps      []cacheEvent
}

// cacheEvent is one operation on the global template cache, for the
// linearizability check of S3 (model: text -> identity of the cached template;
// Parse = get-or-insert, CacheSet = put).
type cacheEvent struct {
	set       bool
	text      string
	tmpl      *plush.Template
	call, ret uint64
}

type cacheIn struct {
	set  bool
	tmpl *plush.Template
}

// cacheState: the template currently cached for one text (nil: none) and
// every template identity the history has shown so far for that text.
type cacheState struct {
	cur  *plush.Template
	seen []*plush.Template
}

func (s cacheState) has(t *plush.Template) bool {
	for _, x := range s.seen {
		if x == t {
			return true
		}
	}
	return false
}

func (s cacheState) with(t *plush.Template) cacheState {
	if s.has(t) {
		return cacheState{cur: t, seen: s.seen}
	}
	return cacheState{cur: t, seen: append(append([]*plush.Template{}, s.seen...), t)}
}

// cacheModel: the cache as a map text -> template with get-or-insert (Parse)
// and put (CacheSet). Eviction is allowed at any time (a bounded cache is
// fine): a Parse may always come back with a template nobody has seen before.
// What is not allowed is a STALE answer: a template that had already been
// replaced (by a completed CacheSet or a later insert) being handed out, or
// found in the cache, again.
var cacheModel = porcupine.Model{
	Init: func() interface{} { return cacheState{} },
	Step: func(state, input, output interface{}) (bool, interface{}) {
		st := state.(cacheState)
		in := input.(cacheIn)
		if in.set {
			return true, st.with(in.tmpl)
		}
		out := output.(*plush.Template)
		if out == nil {
			return false, st
		}
		if out == st.cur {
			return true, st // hit
		}
		if !st.has(out) {
			return true, st.with(out) // miss (never cached, or evicted): parsed anew and inserted
		}
		return false, st // an identity seen before that is not the current one: stale
	},
	Equal: func(a, b interface{}) bool {
		x, y := a.(cacheState), b.(cacheState)
		if x.cur != y.cur || len(x.seen) != len(y.seen) {
			return false
		}
		for i := range x.seen {
			if !y.has(x.seen[i]) {
				return false
			}
		}
		return true
	},
}

func c14ExecRun(t *rapid.T) {
	// scenario 4: nothing is parsed by the controller; every task parses for itself (NewTemplate) and executes:
	// in the first case of a fresh process this is the process's FIRST use of lexer, parser and evaluator, from
	// several goroutines at once (lazily initialised package-level tables and the like)
	scenario := 1 + uni(t, "scenario", 4)
	// S7 (drawn separately, rarely): the shared parent of S2 has itself rendered a page before, so it holds a
	// contentFor block; the children render the layout, which runs that block through contentOf
	parentPage := scenario == 2 && uni(t, "parentpage", 4) == 0
	maxTasks := 6
	if thorough {
		maxTasks = 32
	}
	ntasks := rapid.IntRange(2, maxTasks).Draw(t, "tasks")
	if ntasks > 6 && rapid.IntRange(0, 3).Draw(t, "big") != 0 {
		ntasks = 2 + ntasks%5
	}
	if !thorough && uni(t, "wide", 8) == 0 {
		// now and then more callers than a small fixed-size resource (a pool or semaphore of 8) could serve
		ntasks = 7 + uni(t, "widetasks", 4)
	}
	nprog := 1
	if scenario == 3 {
		nprog = rapid.IntRange(1, 4).Draw(t, "nprog")
	}
	var progs []*Program
	for i := 0; i < nprog; i++ {
		progs = append(progs, genProgram(t, genOpts{tolerant: true, toleratedOnly: true, lateLet: true, probes: true, mapRegions: true, pureMapBody: true, sideEffects: true, failing: true, failPct: 10, probePct: 15, maxPieces: 4, maxDepth: 2, litModePct: 24, brokenPct: 10, fewArgs: true}))
	}
	if scenario == 3 && nprog >= 2 && uni(t, "crlfcopy", 3) == 0 && strings.Contains(progs[0].Main, "\n") {
		// two texts that differ only in their line endings go through the cache at the same time
		cp := *progs[0]
		cp.Main = strings.ReplaceAll(strings.ReplaceAll(progs[0].Main, "\r\n", "\n"), "\n", "\r\n")
		if cp.Main != progs[0].Main {
			progs[1] = &cp
			count("c14_s3_line_ending_twins", 1)
		}
	}
	cacheOn := scenario == 3 || rapid.Bool().Draw(t, "cache")
	warm := uni(t, "warm", 3) // 0 cold, 1 some, 2 all
	mp := drawMapOrder(t)
	mseed := uint64(7)
	nvar := 2

	plan := make([][]execOp, ntasks)
	for i := range plan {
		n := rapid.IntRange(1, 3).Draw(t, "nexec")
		for x := 0; x < n; x++ {
			o := execOp{prog: uni(t, "prog", nprog), variant: uni(t, "variant", nvar)}
			switch scenario {
			case 4:
				o.kind = 6
			case 1, 2:
				o.kind = []int{0, 0, 0, 4, 1, 5, 5, 7}[uni(t, "kind", 8)]
				if parentPage {
					o.kind = 8
				}
			default:
				o.kind = []int{1, 2, 2, 3, 7, 7, 9, 9}[uni(t, "kind", 8)]
			}
			plan[i] = append(plan[i], o)
		}
	}

	plush.CacheEnabled = false
	plush.VerifResetCache()
	defer func() {
		simrt.SettleLocks() // also when a draw ends the case from inside Run: a leaked lock must not hang the clean-up
		plush.CacheEnabled = false
		plush.VerifResetCache()
		simrt.SetMapOrder(simrt.Canonical, 0)
	}()

	// shared parent (S2): built once, holds the plain data; children get the
	// task's own probes. Its obj does not record (it is shared).
	mkParent := func(p *Program) *plush.Context {
		prt := newRuntime(p, false)
		return plush.NewContextWith(prt.plainData())
	}
	mkCtx := func(parent *plush.Context, rt *Runtime) *plush.Context {
		if parent == nil {
			return plush.NewContextWith(rt.contextData())
		}
		c := parent.New()
		for k, v := range rt.helperData() {
			c.Set(k, v)
		}
		// private values shadow the shared ones
		c.Set("n1", 3+rt.Variant)
		c.Set("s1", "ab<c"+strings.Repeat("!", rt.Variant))
		return c.(*plush.Context)
	}

	// ---- shared objects
	if scenario == 4 {
		cacheOn = false
	}
	plush.CacheEnabled = cacheOn
	var sharedLayout *plush.Template
	if scenario != 4 {
		var lerr error
		sharedLayout, lerr = plush.NewTemplate(layoutText)
		if lerr != nil {
			t.Fatalf("VERIF-INTERNAL layout does not parse: %v", lerr)
		}
	}
	// one helpers map per (program, caller variant), shared by all tasks (kind 9)
	appHelpers := map[int]map[string]interface{}{}
	for pi, p := range progs {
		for v := 0; v < nvar; v++ {
			hr := newRuntime(p, false)
			hr.Variant = v
			appHelpers[pi*8+v] = hr.helperData()
		}
	}
	var sharedLayout7 *plush.Template
	if parentPage {
		var lerr error
		if sharedLayout7, lerr = plush.NewTemplate(s7Layout); lerr != nil {
			t.Fatalf("VERIF-INTERNAL S7 layout does not parse: %v", lerr)
		}
	}
	shared := make([]*plush.Template, nprog)
	parents := make([]*plush.Context, nprog)
	var snaps []*liveTmpl
	for i, p := range progs {
		if scenario == 4 {
			break
		}
		var err error
		if cacheOn && scenario != 3 {
			shared[i], err = guardedParse(p.Main)
		} else {
			shared[i], err = guardedNewTemplate(p.Main)
		}
		if err != nil {
			if p.Broken == "" {
				t.Fatalf("VERIF-INTERNAL generated program does not parse: %v", err)
			}
			shared[i] = nil // a template that fails to parse: tasks go through Parse/Render and must all get the error
		} else {
			snaps = append(snaps, &liveTmpl{t: shared[i], prog: i, snap: snapshot(plush.VerifProgram(shared[i]))})
		}
		if scenario == 2 {
			parents[i] = mkParent(p)
			if parentPage {
				// the parent renders a page of its own first (the block it stores reads a name only the children bind)
				if _, err := safeRender(s7Page, parents[i]); err != nil {
					t.Fatalf("VERIF-INTERNAL S7 page does not render: %v", err)
				}
			}
		}
		if scenario == 3 && cacheOn && (warm == 2 || (warm == 1 && i%2 == 0)) {
			if tm, err := guardedParse(p.Main); err == nil {
				snaps = append(snaps, &liveTmpl{t: tm, prog: i, snap: snapshot(plush.VerifProgram(tm))})
			}
		}
	}

	nexecs := 0
	for _, ops := range plan {
		nexecs += len(ops)
	}
	opts := drawSched(t, 600*nexecs+ntasks) // static estimate: nothing may depend on earlier runs of this process
	opts.MaxSteps = 2000000
	opts.KeepTrace = true
	simrt.SetMapOrder(mp, mseed)
	sim := simrt.NewSim(rapidChooser{t}, opts)
	results := make([][]execRes, ntasks)
	for i := range plan {
		i := i
		results[i] = make([]execRes, len(plan[i]))
		sim.Go(fmt.Sprintf("T%d", i), func() {
			for x, o := range plan[i] {
				p := progs[o.prog]
				rt := newRuntime(p, true)
				rt.Variant = o.variant
				ctx := mkCtx(parents[o.prog], rt)
				var out string
				var err error
				var input string
				var cops []cacheEvent
				kind := o.kind
				if kind == 6 {
					var tm *plush.Template
					if tm, err = guardedNewTemplate(p.Main); err == nil {
						out, err = safeExec(tm, ctx)
					}
				}
				if shared[o.prog] == nil && (kind == 0 || kind == 4 || kind == 5) {
					kind = 1 + uni3(i+x) // broken text: Parse+Exec, Render or CacheSet+Render
				}
				switch kind {
				case 0:
					out, err = safeExec(shared[o.prog], ctx)
				case 4:
					out, err = safeExec(shared[o.prog].Clone(), ctx)
				case 5:
					out, err = safeExec(shared[o.prog], ctx)
					if err == nil {
						var lout string
						lout, err = safeExec(sharedLayout, ctx)
						out += "¦" + lout
					}
				case 1:
					var tm *plush.Template
					ev := cacheEvent{text: p.Main, call: simrt.Tick()}
					tm, err = guardedParse(p.Main)
					ev.ret, ev.tmpl = simrt.Tick(), tm
					if err == nil {
						cops = append(cops, ev)
						input = tm.Input
						out, err = safeExec(tm, ctx)
					}
				case 9:
					// buffalo's way: fresh request data, the application's ONE helpers map (shared by every request;
					// its probes do not record, so nothing in it is written by the harness)
					rt.Record = false
					out, err = safeBuffalo(p.Main, rt.plainData(), appHelpers[o.prog*8+o.variant])
				case 8:
					ctx.Set("who", fmt.Sprintf("T%d.%d", i, x))
					out, err = safeExec(sharedLayout7, ctx)
				case 7:
					out, err = safeRenderR(&chunkReader{s: p.Main, sizes: []int{1 + (i+x)%7, 64, 5}}, ctx)
				case 2:
					out, err = safeRender(p.Main, ctx)
				case 3:
					var tm *plush.Template
					tm, err = guardedNewTemplate(p.Main)
					if err == nil {
						ev := cacheEvent{set: true, text: p.Main, tmpl: tm, call: simrt.Tick()}
						plush.CacheSet(p.Main, tm)
						ev.ret = simrt.Tick()
						cops = append(cops, ev)
						out, err = safeRender(p.Main, ctx)
					}
				}
				res := result(out, err, rt)
				results[i][x] = execRes{out: res.out, err: res.err, log: res.log, input: input, cacheOps: cops}
			}
		})
	}

	simrt.ResetTick()
	initialCache := map[string]*plush.Template{}
	if cacheOn {
		initialCache = plush.VerifCachedTemplates()
	}
	if scenario == 3 && cacheOn {
		// a crowded cache (bounded caches, eviction while others render) and a
		// task that keeps inserting new templates during the run
		crowd := []int{0, 0, 30, 100, 600}[uni(t, "crowd", 5)]
		for x := 0; x < crowd; x++ {
			_, _ = plush.Parse(fmt.Sprintf("crowd %d <%%= %d %%>", x, x))
		}
		if crowd > 0 {
			count("c14_s3_crowded_cache_runs", 1)
			nf := 1 + uni(t, "nfillers", 8)
			fillerBad := ""
			sim.Go("F", func() {
				for n := 0; n < nf; n++ {
					out, err := safeRender(fmt.Sprintf("late filler %d <%%= %d %%>", n, n), plush.NewContext())
					if err != nil || out != fmt.Sprintf("late filler %d %d", n, n) {
						fillerBad = fmt.Sprintf("filler %d rendered %q, %v", n, out, err)
					}
				}
			})
			defer func() {
				if fillerBad != "" {
					violate(t, "C14", "concurrent-execution-equals-execution-alone", "result-differs:S3-filler", func() map[string]interface{} {
						return map[string]interface{}{"message": fillerBad}
					})
				}
			}()
		}
	}
	if scenario == 3 && cacheOn && uni(t, "panickingparse", 3) == 0 {
		// one caller feeds the cache-aware Parse inputs on which the PARSER PANICS (a text ending in `\<`, a defect of
		// the pinned tree that is not this property's subject) and recovers, as net/http does for a handler: whatever
		// Parse holds at that moment must be released, or every other caller hangs
		count("c14_s3_panicking_parse_runs", 1)
		sim.Go("X", func() {
			for n := 0; n < 2; n++ {
				_, _ = guardedParse(fmt.Sprintf("%d%% off \\<", 50+n))
			}
		})
	}
	if scenario == 2 && rapid.Bool().Draw(t, "parentwriter") {
		// somebody keeps Setting (keys no template reads) on the shared
		// parent while its children render
		count("c14_s2_parent_writer_runs", 1)
		nw := 1 + uni(t, "nwrites", 6)
		sim.Go("W", func() {
			for n := 0; n < nw; n++ {
				for _, par := range parents {
					if par != nil {
						par.Set(fmt.Sprintf("wz%d", n%3), n)
						_ = par.Has("wz0")
					}
				}
			}
		})
	}
	mark := raceBegin()
	err := sim.Run()
	races, raceText := raceEnd(mark)
	// a lock a task acquired and never released: every caller has returned, nobody is left to release it, and the
	// next caller (this harness included) would block for ever. Released here so that the process can go on.
	leaked := 0
	if err == nil {
		leaked = len(simrt.HeldLocks())
	}
	simrt.SettleLocks()
	finalCache := map[string]*plush.Template{}
	if cacheOn {
		finalCache = plush.VerifCachedTemplates()
	}

	scName := fmt.Sprintf("S%d", scenario)
	if scenario == 4 {
		scName = "S6" // S4 and S5 are the context scenarios of c14ctx.go
	}
	if parentPage {
		scName = "S7"
	}
	details := func(msg string) func() map[string]interface{} {
		return func() map[string]interface{} {
			var ps []interface{}
			for i, p := range progs {
				ps = append(ps, map[string]interface{}{"program": i, "text": p.Main, "partials": p.Partials, "js": p.JS})
			}
			var pl []string
			for i, ops := range plan {
				var s []string
				for _, o := range ops {
					s = append(s, o.String())
				}
				pl = append(pl, fmt.Sprintf("T%d: %s", i, strings.Join(s, "; ")))
			}
			var sched []string
			for n, st := range sim.Trace {
				if n >= 400 {
					sched = append(sched, fmt.Sprintf("... %d more steps", len(sim.Trace)-n))
					break
				}
				sched = append(sched, fmt.Sprintf("T%d@%s", st.Task, st.Site))
			}
			return map[string]interface{}{
				"scenario": map[int]string{1: "S1 shared template, own root contexts", 2: "S2 shared template, children of one shared parent", 3: "S3 concurrent Parse/Render/CacheSet"}[scenario],
				"cache":    cacheOn, "warm": warm, "programs": ps, "plan": pl, "policy": opts.Policy.String(), "map_order": mp.String(),
				"schedule": sched, "steps": sim.Steps, "message": msg, "race_report": raceText, "race_pairs": racePairs(raceText),
			}
		}
	}

	count("c14_"+strings.ToLower(scName)+"_runs", 1)
	count("sched_steps", int64(sim.Steps))
	count("sched_switches", int64(sim.Switches))
	count("sched_contentions", int64(sim.Contentions))
	count("sched_spawned_goroutines", int64(sim.Spawned))
	count("sched_leaked_goroutines", int64(sim.Leaked))
	count("sched_stray_goroutine_calls", int64(simrt.TakeStrayCalls()))
	count("policy_"+opts.Policy.String(), 1)
	countMax("max_tasks", int64(ntasks))
	if cacheOn {
		count("c14_cache_on_runs", 1)
	}
	if sim.Switches > 0 {
		seen("c14", sim.Sig)
	}
	for _, p := range progs {
		for f, n := range p.Features {
			count("feat_"+f, int64(n))
		}
	}

	if err != nil {
		switch err.(type) {
		case *simrt.Deadlock:
			violate(t, "C14", "no-deadlock", "deadlock:"+scName, details(err.Error()))
		case *simrt.Inconclusive:
			// the code under test waits on real timers, which the simulator does not own
			count("c14_timer_wait_inconclusive", 1)
		case *simrt.StepLimit:
			// a long but finite run cannot be told from a livelock by a step count:
			// inconclusive, counted, never a violation (blocking is covered by deadlock detection)
			count("c14_step_limit_inconclusive", 1)
		default:
			violate(t, "C14", "no-panic", "panic:"+scName, details(err.Error()))
		}
		return
	}
	if leaked > 0 {
		violate(t, "C14", "no-deadlock", "lock-leaked:"+scName, details(fmt.Sprintf("%d lock(s) acquired by a caller were still held when every caller had returned: any further call that needs them blocks for ever", leaked)))
		return
	}
	if races > 0 {
		pairs := racePairs(raceText)
		sig := "race:" + strings.Join(pairs, " ; ")
		if parentPage {
			// S7 has ONE known way to race (known_findings.json): the block stored by the parent's page keeps the
			// page's evaluator, and every child's contentOf swaps that evaluator's context and records statements in
			// it. The known signature is used only in this scenario and only when the reports include the swap
			// itself; a run of S7 without it keeps its full signature. The same code runs in S1-S6 without the
			// parent's page, so a race of its own in evaluator or Context is still reported there.
			// The swap itself (HelperContext.BlockWith writing the evaluator's ctx) is the fingerprint; everything else
			// reported in such a run is what follows from it (one goroutine's loop scope, freshly built context or
			// current statement becoming another's), and its sides vary from run to run.
			all := false
			for _, pr := range pairs {
				if strings.Contains(pr, "HelperContext.BlockWith") {
					all = true
				}
			}
			// the race runtime reports an address once per process and cannot always restore the older access, so a
			// run may show only the consequences. They are attributed by CAUSE: every access of every report happens
			// while a contentOf of a child runs the block stored by the parent's page (ContentFor's closure) - that is,
			// on the parent's evaluator
			if !all && raceStacksAllThrough(raceText, "helpers/content.ContentFor.func1") {
				all = true
			}
			if all {
				sig = "race:S7:evaluator-shared-through-contentFor-block-of-the-parent"
			}
		}
		violate(t, "C14", "race-free", sig, details(fmt.Sprintf("%d data race report(s) from the Go race detector", races)))
		return
	}
	plush.CacheEnabled = false
	plush.VerifResetCache()
	// ---- reference: every (program, variant) executed alone, AFTER the
	// concurrent run (so that nothing the reference touches — lazily
	// initialised or memoised process-wide state — is already warm when the
	// tasks run), under a single-task simulation
	type refKey struct {
		prog, variant int
		layout        bool
		buffalo       bool
	}
	ref := map[refKey]execRes{}
	for _, ops := range plan {
		for _, o := range ops {
			if o.kind == 8 {
				continue // S7: compared below, op by op (each op has its own `who`)
			}
			k := refKey{o.prog, o.variant, o.kind == 5, o.kind == 9}
			if _, ok := ref[k]; ok {
				continue
			}
			withLayout := o.kind == 5
			p := progs[o.prog]
			rt := newRuntime(p, true)
			rt.Variant = o.variant
			var parent *plush.Context
			if scenario == 2 {
				parent = mkParent(p)
			}
			simrt.SetMapOrder(simrt.Canonical, 0)
			var r execRes
			rsim := simrt.NewSim(rapidChooser{t}, simrt.Options{Policy: simrt.RoundRobin, MaxSteps: 2000000})
			buffalo := o.kind == 9
			rsim.Go("ref", func() {
				if buffalo {
					// alone: the same entry point, a helpers map of its own (non-recording, like the shared one)
					hr := newRuntime(p, false)
					hr.Variant = rt.Variant
					rt.Record = false
					out, err := safeBuffalo(p.Main, rt.plainData(), hr.helperData())
					res := result(out, err, rt)
					r = execRes{out: res.out, err: res.err, log: res.log}
					return
				}
				tm, err := guardedNewTemplate(p.Main)
				var out string
				if err == nil {
					ctx := mkCtx(parent, rt)
					out, err = safeExec(tm, ctx)
					if err == nil && withLayout {
						var lt *plush.Template
						var lout string
						if lt, err = plush.NewTemplate(layoutText); err == nil {
							lout, err = safeExec(lt, ctx)
							out += "¦" + lout
						}
					}
				}
				res := result(out, err, rt)
				r = execRes{out: res.out, err: res.err, log: res.log}
			})
			if err := rsim.Run(); err != nil {
				t.Fatalf("VERIF-INTERNAL reference run failed: %v", err)
				return
			}
			ref[k] = r
		}
	}

	for i, ops := range plan {
		for x, o := range ops {
			got := results[i][x]
			want := ref[refKey{o.prog, o.variant, o.kind == 5, o.kind == 9}]
			if o.kind == 8 {
				// the same thing alone: a parent that rendered the page, one child, the layout
				p := progs[o.prog]
				rt := newRuntime(p, true)
				rt.Variant = o.variant
				par := mkParent(p)
				var out string
				var err error
				rsim := simrt.NewSim(rapidChooser{t}, simrt.Options{Policy: simrt.RoundRobin, MaxSteps: 2000000})
				rsim.Go("ref", func() {
					if _, err = safeRender(s7Page, par); err == nil {
						ctx := mkCtx(par, rt)
						ctx.Set("who", fmt.Sprintf("T%d.%d", i, x))
						var lt *plush.Template
						if lt, err = plush.NewTemplate(s7Layout); err == nil {
							out, err = safeExec(lt, ctx)
						}
					}
				})
				if rerr := rsim.Run(); rerr != nil {
					t.Fatalf("VERIF-INTERNAL S7 reference run failed: %v", rerr)
				}
				res := result(out, err, rt)
				want = execRes{out: res.out, err: res.err, log: res.log}
			}
			count("c14_exec_results_compared", 1)
			if got.out != want.out || got.err != want.err {
				violate(t, "C14", "concurrent-execution-equals-execution-alone", "result-differs:"+scName, details(fmt.Sprintf("T%d op %d (%s) returned\n  out=%q err=%q\nalone it returns\n  out=%q err=%q", i, x, o, got.out, got.err, want.out, want.err)))
				return
			}
			if got.log != want.log {
				violate(t, "C14", "concurrent-execution-calls-helpers-as-alone", "calls-differ:"+scName, details(fmt.Sprintf("T%d op %d (%s) called helpers %s, alone %s", i, x, o, got.log, want.log)))
				return
			}
			if o.kind == 1 && got.input != "" && got.input != progs[o.prog].Main {
				violate(t, "C14", "parse-returns-the-template-of-its-text", "parse-wrong-template:"+scName, details(fmt.Sprintf("T%d op %d: Parse returned a template for another text", i, x)))
				return
			}
		}
	}
	if scenario == 3 && cacheOn {
		// the cache as a linearizable get-or-insert / put map, per text
		var ops []porcupine.Operation
		var maxRet uint64
		for i := range results {
			for _, r := range results[i] {
				for _, e := range r.cacheOps {
					if e.ret > maxRet {
						maxRet = e.ret
					}
					ops = append(ops, porcupine.Operation{ClientId: i, Input: cacheKeyed{e.text, cacheIn{set: e.set, tmpl: e.tmpl}}, Call: int64(e.call), Output: e.tmpl, Return: int64(e.ret)})
				}
			}
		}
		for _, p := range progs {
			if tm := initialCache[p.Main]; tm != nil {
				ops = append(ops, porcupine.Operation{ClientId: ntasks, Input: cacheKeyed{p.Main, cacheIn{set: true, tmpl: tm}}, Call: -2, Output: tm, Return: -1})
			}
			if tm := finalCache[p.Main]; tm != nil {
				// final state: a lookup after everything must hit this template
				ops = append(ops, porcupine.Operation{ClientId: ntasks, Input: cacheKeyed{p.Main, cacheIn{}}, Call: int64(maxRet) + 1, Output: tm, Return: int64(maxRet) + 2})
			}
		}
		if len(ops) > 0 {
			model := cacheModel
			model.Partition = func(history []porcupine.Operation) [][]porcupine.Operation {
				m := map[string][]porcupine.Operation{}
				var order []string
				for _, o := range history {
					k := o.Input.(cacheKeyed)
					o.Input = k.in
					if _, ok := m[k.text]; !ok {
						order = append(order, k.text)
					}
					m[k.text] = append(m[k.text], o)
				}
				sort.Strings(order)
				var out [][]porcupine.Operation
				for _, k := range order {
					out = append(out, m[k])
				}
				return out
			}
			count("c14_s3_cache_history_ops", int64(len(ops)))
			switch porcupine.CheckOperationsTimeout(model, ops, 10*time.Second) {
			case porcupine.Illegal:
				violate(t, "C14", "cache-ops-linearizable", "linearizability:cache", details("Parse (get-or-insert) / CacheSet (put) history on the template cache is not linearizable even allowing evictions: a template that had already been replaced was handed out, or left in the cache, again (stale entry / lost CacheSet)"))
				return
			case porcupine.Unknown:
				count("c14_s3_linearizability_unknown", 1)
			default:
				count("c14_s3_cache_linearizable", 1)
			}
		}
	}
	for _, l := range snaps {
		if snapshot(plush.VerifProgram(l.t)) != l.snap {
			violate(t, "C14", "execution-does-not-modify-parsed-program", "tree-mutated:"+scName, details(fmt.Sprintf("parsed program of program %d changed during the run", l.prog)))
			return
		}
	}
	sample(3, func() interface{} {
		d := details("ok")()
		delete(d, "race_report")
		delete(d, "race_pairs")
		if s, ok := d["schedule"].([]string); ok && len(s) > 40 {
			d["schedule"] = append(s[:40:40], fmt.Sprintf("... %d steps in total", sim.Steps))
		}
		return d
	})
}

// S7: a page that stores a block, and the layout that runs it. The block reads `who`, which only the children bind.
const s7Page = "<% contentFor(\"side7\") { %>[<%= n2 %> <%= extra %> <%= for (x) in [1, 2] { %><%= x %><% } %>]<% } %>page"
const s7Layout = "<main><%= contentOf(\"side7\", {\"extra\": who}) %></main><%= who %>"

package harness

import (
	"fmt"
	"os"
	"regexp"
	"sort"
	"strings"

	"github.com/gobuffalo/plush/v5/simrt"
)

// The Go race runtime is the happens-before oracle (DESIGN.md §2.3). Reports
// go to the file named by GORACE's log_path (suffix .<pid>); a run's reports
// are the bytes appended while it ran, attributed by the RaceErrors() delta.

type raceMark struct {
	errors int
	offset int64
}

func raceLogPath() string {
	for _, f := range strings.Fields(os.Getenv("GORACE")) {
		if strings.HasPrefix(f, "log_path=") {
			return fmt.Sprintf("%s.%d", strings.TrimPrefix(f, "log_path="), os.Getpid())
		}
	}
	return ""
}

func raceBegin() raceMark {
	m := raceMark{errors: simrt.RaceErrors()}
	if p := raceLogPath(); p != "" {
		if st, err := os.Stat(p); err == nil {
			m.offset = st.Size()
		}
	}
	return m
}

// raceEnd returns the number of races reported since m and their text.
func raceEnd(m raceMark) (int, string) {
	n := simrt.RaceErrors() - m.errors
	if n <= 0 {
		return 0, ""
	}
	text := ""
	if p := raceLogPath(); p != "" {
		if b, err := os.ReadFile(p); err == nil && int64(len(b)) > m.offset {
			text = string(b[m.offset:])
		}
	}
	return n, text
}

var (
	raceHead  = regexp.MustCompile(`^(?:Previous )?(?:[Ww]rite|[Rr]ead|[Aa]tomic write|[Aa]tomic read) at 0x[0-9a-f]+ by `)
	raceFrame = regexp.MustCompile(`^  ([^\s].*)\(\)$`)
)

// racePairs extracts, per report, the unordered pair of innermost
// non-runtime functions of the two conflicting accesses.
func racePairs(text string) []string {
	var pairs []string
	set := map[string]bool{}
	for _, block := range strings.Split(text, "==================") {
		if !strings.Contains(block, "DATA RACE") {
			continue
		}
		lines := strings.Split(block, "\n")
		var tops []string
		for i := 0; i < len(lines); i++ {
			if !raceHead.MatchString(lines[i]) {
				continue
			}
			top := "?"
			for j := i + 1; j < len(lines) && strings.TrimSpace(lines[j]) != ""; j++ {
				if m := raceFrame.FindStringSubmatch(lines[j]); m != nil {
					fn := m[1]
					if strings.HasPrefix(fn, "runtime.") || strings.Contains(fn, "/simrt.") || strings.HasPrefix(fn, "reflect.") || strings.HasPrefix(fn, "internal/") {
						continue
					}
					top = fn
					break
				}
			}
			tops = append(tops, shortFn(top))
		}
		if len(tops) >= 2 {
			p := []string{tops[0], tops[1]}
			sort.Strings(p)
			k := p[0] + " | " + p[1]
			if !set[k] {
				set[k] = true
				pairs = append(pairs, k)
			}
		}
	}
	sort.Strings(pairs)
	return pairs
}

func shortFn(fn string) string {
	fn = strings.TrimPrefix(fn, "github.com/gobuffalo/plush/v5/")
	fn = strings.TrimPrefix(fn, "github.com/gobuffalo/plush/v5.")
	if i := strings.Index(fn, "[...]"); i >= 0 {
		fn = fn[:i] + fn[i+5:]
	}
	return fn
}

// raceStacksAllThrough reports whether every access stack of every race report in text (stacks the race runtime
// could not restore are skipped, but each report must have at least one) passes through a function whose name
// contains marker.
func raceStacksAllThrough(text, marker string) bool {
	reports := 0
	for _, block := range strings.Split(text, "==================") {
		if !strings.Contains(block, "DATA RACE") {
			continue
		}
		reports++
		lines := strings.Split(block, "\n")
		stacks := 0
		for i := 0; i < len(lines); i++ {
			if !raceHead.MatchString(lines[i]) {
				continue
			}
			frames, through := 0, false
			for j := i + 1; j < len(lines) && strings.TrimSpace(lines[j]) != ""; j++ {
				if m := raceFrame.FindStringSubmatch(lines[j]); m != nil {
					frames++
					if strings.Contains(m[1], marker) {
						through = true
					}
				}
			}
			if frames == 0 {
				continue
			}
			stacks++
			if !through {
				return false
			}
		}
		if stacks == 0 {
			return false
		}
	}
	return reports > 0
}

// Package harness holds the simulation engines of /verif (DESIGN.md §5). It is
// copied next to an instrumented scratch copy of plush and built as a test
// binary (with -race for the schedule engine). All choices come from rapid.
package harness

import (
	"encoding/binary"
	"encoding/json"
	"flag"
	"fmt"
	"hash/fnv"
	"math/bits"
	"os"
	"sort"
	"strconv"
	"sync"
	"sync/atomic"
	"testing"
	"time"

	"github.com/gobuffalo/plush/v5/simrt"
	"pgregory.net/rapid"
)

// ---------------------------------------------------------------- statistics

// Stats is what one worker process reports to the driver.
type Stats struct {
	Engine     string                 `json:"engine"`
	Worker     int                    `json:"worker"`
	Seeds      []uint64               `json:"seeds"`
	Runs       int64                  `json:"runs"`
	Counters   map[string]int64       `json:"counters"`
	Samples    []interface{}          `json:"samples"`
	Violation  map[string]interface{} `json:"violation,omitempty"`
	Known      map[string]int64       `json:"known,omitempty"`
	KnownWhat  map[string]string      `json:"known_what,omitempty"`
	WallS      float64                `json:"wall_s"`
	Replay     bool                   `json:"replay"`
	FailedTest bool                   `json:"failed_test"`
}

var (
	statsMu  sync.Mutex
	stats    = Stats{Counters: map[string]int64{}, Known: map[string]int64{}, KnownWhat: map[string]string{}}
	distinct = map[string]map[uint64]struct{}{}
	started  = time.Now()
)

func count(name string, n int64) {
	statsMu.Lock()
	stats.Counters[name] += n
	statsMu.Unlock()
	progress.Add(1)
}

// progress feeds the process watchdog: if nothing is counted for
// VERIF_IDLE_S seconds (a controller parked on a lock an aborted run left
// held, a hang outside any scheduler step), the process ends with status 2 —
// inconclusive, never a violation.
var progress atomic.Int64

func startIdleWatchdog() {
	limit := time.Duration(envInt("VERIF_IDLE_S", 300)) * time.Second
	go func() {
		last, since := int64(-1), time.Now()
		for {
			time.Sleep(5 * time.Second)
			if p := progress.Load(); p != last {
				last, since = p, time.Now()
				continue
			}
			if time.Since(since) > limit {
				fmt.Fprintf(os.Stderr, "VERIF-WATCHDOG no progress for %v: process is stuck outside the scheduler\n", limit)
				writeStats()
				os.Exit(2)
			}
		}
	}()
}

func countMax(name string, v int64) {
	statsMu.Lock()
	if v > stats.Counters[name] {
		stats.Counters[name] = v
	}
	statsMu.Unlock()
}

// seen records a 64-bit signature in the named distinct-set.
func seen(set string, h uint64) {
	statsMu.Lock()
	m := distinct[set]
	if m == nil {
		m = map[uint64]struct{}{}
		distinct[set] = m
	}
	m[h] = struct{}{}
	statsMu.Unlock()
}

func sample(max int, mk func() interface{}) {
	statsMu.Lock()
	n := len(stats.Samples)
	statsMu.Unlock()
	if n >= max {
		return
	}
	s := mk()
	statsMu.Lock()
	stats.Samples = append(stats.Samples, s)
	statsMu.Unlock()
}

func hashStr(parts ...string) uint64 {
	h := fnv.New64a()
	for _, p := range parts {
		h.Write([]byte(p))
		h.Write([]byte{0})
	}
	return h.Sum64()
}

func writeStats() {
	path := os.Getenv("VERIF_STATS")
	if path == "" {
		return
	}
	statsMu.Lock()
	defer statsMu.Unlock()
	stats.WallS = time.Since(started).Seconds()
	b, _ := json.Marshal(&stats)
	_ = os.WriteFile(path, b, 0o644)
	for name, m := range distinct {
		buf := make([]byte, 0, 8*len(m))
		for h := range m {
			buf = binary.LittleEndian.AppendUint64(buf, h)
		}
		_ = os.WriteFile(path+".distinct."+name, buf, 0o644)
	}
}

// ------------------------------------------------------------ known findings

type knownFinding struct {
	Property  string `json:"property"`
	Status    string `json:"status"`
	Signature string `json:"signature"`
	What      string `json:"what"`
	Commit    string `json:"commit,omitempty"`
}

var known []knownFinding

func loadKnown() {
	p := os.Getenv("VERIF_KNOWN")
	if p == "" {
		return
	}
	b, err := os.ReadFile(p)
	if err != nil {
		return
	}
	var f struct {
		Findings []knownFinding `json:"findings"`
	}
	if json.Unmarshal(b, &f) == nil {
		for _, k := range f.Findings {
			if k.Status == "known" {
				known = append(known, k)
			}
		}
	}
}

// ------------------------------------------------------------------ violation

var enabledProps = map[string]bool{}

func propEnabled(id string) bool {
	if len(enabledProps) == 0 {
		return true
	}
	return enabledProps[id]
}

// violate reports a violation of property prop. signature identifies the
// violation narrowly (invariant + position class, or the racing pair); a
// signature listed as a known finding is counted and does not fail the run.
// It must be called from a distinct source line per invariant: rapid keeps a
// shrink candidate only if it fails at the same call stack.
func violate(t *rapid.T, prop, invariant, signature string, details func() map[string]interface{}) {
	if !propEnabled(prop) {
		return
	}
	for _, k := range known {
		if k.Property == prop && k.Signature == signature {
			statsMu.Lock()
			stats.Known[prop+" "+signature]++
			stats.KnownWhat[prop+" "+signature] = k.What
			statsMu.Unlock()
			return
		}
	}
	d := details()
	d["property"] = prop
	d["invariant"] = invariant
	d["signature"] = signature
	statsMu.Lock()
	stats.Violation = d
	statsMu.Unlock()
	t.Helper()
	t.Fatalf("VERIF-VIOLATION property=%s invariant=%s signature=%s", prop, invariant, signature)
}

// ------------------------------------------------------------------- batching

func splitmix64(x uint64) uint64 {
	x += 0x9e3779b97f4a7c15
	x = (x ^ (x >> 30)) * 0xbf58476d1ce4e5b9
	x = (x ^ (x >> 27)) * 0x94d049bb133111eb
	return x ^ (x >> 31)
}

func envInt(name string, def int64) int64 {
	if v := os.Getenv(name); v != "" {
		if n, err := strconv.ParseInt(v, 0, 64); err == nil {
			return n
		}
	}
	return def
}

func envUint(name string, def uint64) uint64 {
	if v := os.Getenv(name); v != "" {
		if n, err := strconv.ParseUint(v, 0, 64); err == nil {
			return n
		}
	}
	return def
}

func envFloat(name string, def float64) float64 {
	if v := os.Getenv(name); v != "" {
		if n, err := strconv.ParseFloat(v, 64); err == nil {
			return n
		}
	}
	return def
}

var thorough = os.Getenv("VERIF_TIER") == "thorough"

// runBatches drives rapid.Check for this worker: batches of VERIF_CHECKS
// cases, batch r seeded with splitmix(VERIF_SEED, engine, worker, r)|1, until
// VERIF_BUDGET_S of wall time is used or VERIF_BATCHES batches are done. The
// clock only decides how many batches run, never what a batch contains.
// With -rapid.failfile set it replays that single case instead.
func runBatches(t *testing.T, engine string, prop func(*rapid.T)) {
	startIdleWatchdog()
	stats.Engine = engine
	stats.Worker = int(envInt("VERIF_WORKER", 0))
	if ff := flag.Lookup("rapid.failfile"); ff != nil && ff.Value.String() != "" {
		stats.Replay = true
		// replay one recorded case; doCheck returns as soon as it fails, and
		// if it does not fail any more we do not go on to search.
		_ = flag.Set("rapid.checks", "1")
		_ = flag.Set("rapid.seed", "1")
		defer func() { stats.FailedTest = t.Failed() }()
		rapid.Check(t, func(rt *rapid.T) { simT = rt; defer func() { simT = nil }(); prop(rt) })
		return
	}
	base := envUint("VERIF_SEED", 1)
	budget := envFloat("VERIF_BUDGET_S", 5)
	checks := envInt("VERIF_CHECKS", 200)
	maxBatches := envInt("VERIF_BATCHES", 1<<40)
	eng := hashStr(engine)
	deadline := time.Now().Add(time.Duration(budget * float64(time.Second)))
	defer func() { stats.FailedTest = t.Failed() }()
	for r := int64(0); r < maxBatches; r++ {
		if r > 0 && time.Now().After(deadline) {
			break
		}
		seed := splitmix64(splitmix64(base^eng)^(uint64(stats.Worker)<<40)^uint64(r)) | 1
		stats.Seeds = append(stats.Seeds, seed)
		_ = flag.Set("rapid.seed", strconv.FormatUint(seed, 10))
		_ = flag.Set("rapid.checks", strconv.FormatInt(checks, 10))
		rapid.Check(t, func(rt *rapid.T) { simT = rt; defer func() { simT = nil }(); prop(rt) }) // FailNow()s the test on the first falsified case
	}
}

// ------------------------------------------------------------ rapid <-> simrt

// simT is the rapid case a sequential engine is executing (set by runBatches).
var simT *rapid.T

// seqHang is what a sequential engine sees as the error of an operation that
// never returned under the simulator (every goroutine parked).
type seqHang struct{ msg string }

func (h *seqHang) Error() string { return "HANG: " + h.msg }

// underSim runs one operation of a sequential engine (C05/C15, C13, C10). On a
// tree without go statements it just calls f. When the code under test starts
// goroutines of its own (instrumenter rule R6 fired), the operation runs as the
// single caller task of a seeded simulation, so those goroutines are scheduled
// by the run's choice source (replayable) instead of by the Go runtime. It
// returns a non-nil error when the operation did not return (deadlock), a
// spawned goroutine panicked, or the step budget was exhausted.
func underSim(f func()) error {
	if simrt.GoSites == 0 || simT == nil || simrt.InTask() {
		f()
		return nil
	}
	opts := drawSched(simT, 400)
	opts.MaxSteps = 2000000
	sim := simrt.NewSim(rapidChooser{simT}, opts)
	sim.Go("op", f)
	err := sim.Run()
	count("seq_sim_ops", 1)
	count("sched_steps", int64(sim.Steps))
	count("sched_switches", int64(sim.Switches))
	count("sched_spawned_goroutines", int64(sim.Spawned))
	count("sched_leaked_goroutines", int64(sim.Leaked))
	count("sched_stray_goroutine_calls", int64(simrt.TakeStrayCalls()))
	if sim.Switches > 0 {
		seen("seqsched", sim.Sig)
	}
	switch e := err.(type) {
	case nil:
		return nil
	case *simrt.StepLimit, *simrt.Inconclusive:
		count("seq_sim_inconclusive", 1)
		return nil
	case *simrt.TaskPanic:
		// a panic of the operation (or of a goroutine it started: that would end the process) is a panic of the
		// operation for the caller too: callers recover it exactly as they do without the scheduler
		count("seq_sim_panics", 1)
		panic(e.Value)
	default:
		return &seqHang{e.Error()}
	}
}

// uni draws a uniformly distributed value in [0,n). rapid's integer
// generators are deliberately biased towards small values, which is right for
// sizes but wrong for choices (which task runs, which construct, which
// operation); its Bool is one unbiased bit, so choices are built from bits
// with rejection. Shrinking still moves towards 0.
var boolGen = rapid.Bool()

func uni(t *rapid.T, label string, n int) int {
	if n <= 1 {
		return 0
	}
	k := bits.Len(uint(n - 1))
	for {
		v := 0
		for i := 0; i < k; i++ {
			v <<= 1
			if boolGen.Draw(t, label) {
				v |= 1
			}
		}
		if v < n {
			return v
		}
	}
}

type rapidChooser struct{ t *rapid.T }

func (c rapidChooser) Pick(n int) int { return uni(c.t, "pick", n) }

// drawSched draws a scheduling policy (swarm style) and returns sim options.
func drawSched(t *rapid.T, estSteps int) simrt.Options {
	o := simrt.Options{MaxSteps: 20000, PCTEst: estSteps}
	switch uni(t, "policy", 10) {
	case 0, 1, 2, 3:
		o.Policy = simrt.Uniform
	case 4, 5:
		o.Policy = simrt.Sticky
		o.StickyPct = []int{50, 80, 95}[uni(t, "sticky", 3)]
	case 6, 7, 8:
		o.Policy = simrt.PCT
		o.PCTDepth = 1 + uni(t, "pctd", 3)
	default:
		o.Policy = simrt.RoundRobin
	}
	return o
}

// drawMapOrder draws and installs a map-order policy for the run.
func drawMapOrder(t *rapid.T) simrt.MapPolicy {
	p := simrt.MapPolicy(uni(t, "maporder", 4))
	seed := uint64(0)
	if p == simrt.Rotated || p == simrt.Shuffled {
		seed = rapid.Uint64().Draw(t, "mapseed")
	}
	simrt.SetMapOrder(p, seed)
	count("maporder_"+p.String(), 1)
	return p
}

func sortedKeys(m map[string]interface{}) []string {
	ks := make([]string, 0, len(m))
	for k := range m {
		ks = append(ks, k)
	}
	sort.Strings(ks)
	return ks
}

var _ = fmt.Sprint

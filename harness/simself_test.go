package harness

import (
	"sync"
	"testing"

	"github.com/gobuffalo/plush/v5/simrt"
	"pgregory.net/rapid"
)

// TestSimrtSelf validates the simulator runtime itself (DESIGN §7): correctly
// synchronised code using every simulated primitive must run race-report-free
// and deadlock-free under seeded schedules, and three classic mistakes must be
// reported (as a race, a deadlock, a deadlock) deterministically.
func TestSimrtSelf(t *testing.T) {
	runBatches(t, "simself", func(t *rapid.T) {
		variant := uni(t, "variant", 4) // 0 correct, 1 unlocked write, 2 recursive RLock vs writer, 3 Signal where Broadcast is needed
		var (
			rw      sync.RWMutex
			mu      sync.Mutex
			cond    = sync.NewCond(&mu)
			once    sync.Once
			wg      sync.WaitGroup
			shared  = map[string]int{}
			ready   bool
			inits   int
			waiters = 2 + uni(t, "waiters", 2)
		)
		opts := drawSched(t, 200)
		sim := simrt.NewSim(rapidChooser{t}, opts)
		for i := 0; i < 2; i++ {
			i := i
			sim.Go("writer", func() {
				for n := 0; n < 2; n++ {
					simrt.OnceDo(&once, func() { inits++ }, "once")
					if variant == 1 && i == 1 {
						shared["k"] = n // no lock
					} else {
						simrt.Lock(&rw, "w.lock")
						shared["k"] = n
						simrt.Unlock(&rw, "w.unlock")
					}
				}
			})
		}
		for i := 0; i < 2; i++ {
			sim.Go("reader", func() {
				simrt.RLock(&rw, "r.rlock")
				_ = shared["k"]
				if variant == 2 {
					simrt.RLock(&rw, "r.rlock2") // recursive read lock
					_ = shared["k"]
					simrt.RUnlock(&rw, "r.runlock2")
				}
				simrt.RUnlock(&rw, "r.runlock")
			})
		}
		simrt.WGAdd(&wg, waiters, "wg.add")
		for i := 0; i < waiters; i++ {
			sim.Go("waiter", func() {
				simrt.Lock(&mu, "c.lock")
				for !ready {
					simrt.CondWait(cond, "c.wait")
				}
				simrt.Unlock(&mu, "c.unlock")
				simrt.WGDone(&wg, "wg.done")
			})
		}
		sim.Go("signaller", func() {
			simrt.Lock(&mu, "s.lock")
			ready = true
			if variant == 3 {
				simrt.CondSignal(cond, "s.signal")
			} else {
				simrt.CondBroadcast(cond, "s.broadcast")
			}
			simrt.Unlock(&mu, "s.unlock")
			simrt.WGWait(&wg, "wg.wait")
		})
		mark := raceBegin()
		err := sim.Run()
		races, text := raceEnd(mark)
		count("simself_runs", 1)
		switch variant {
		case 0:
			if err != nil || races != 0 || inits != 1 {
				t.Fatalf("VERIF-INTERNAL simrt self-test: correct program reported err=%v races=%d inits=%d\n%s", err, races, inits, text)
			}
		case 1:
			if simrt.RaceEnabled && races == 0 && sim.Switches > 0 {
				count("simself_race_missed", 1) // possible (accidental HB edge), must be rare
			} else if races > 0 {
				count("simself_race_found", 1)
			}
		case 2:
			if _, ok := err.(*simrt.Deadlock); ok {
				count("simself_rlock_deadlock_found", 1)
			} else if err != nil || races != 0 {
				t.Fatalf("VERIF-INTERNAL simrt self-test: recursive RLock variant reported err=%v races=%d\n%s", err, races, text)
			}
		case 3:
			if _, ok := err.(*simrt.Deadlock); ok {
				count("simself_lost_wakeup_found", 1)
			} else if err != nil || races != 0 {
				t.Fatalf("VERIF-INTERNAL simrt self-test: Signal variant reported err=%v races=%d\n%s", err, races, text)
			}
		}
		count("runs", 1)
	})
}

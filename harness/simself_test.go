package harness

import (
	"sync"
	"testing"

	"github.com/gobuffalo/plush/v5/simrt"
	"pgregory.net/rapid"
)

// TestSimrtSelf validates the simulator runtime itself (DESIGN §7): correctly
// synchronised code using every simulated primitive must run race-report-free
// and deadlock-free under seeded schedules, and three classic mistakes must be
// reported (as a race, a deadlock, a deadlock) deterministically.
func TestSimrtSelf(t *testing.T) {
	runBatches(t, "simself", func(t *rapid.T) {
		variant := uni(t, "variant", 10) // 0 correct, 1 unlocked write, 2 recursive RLock vs writer, 3 Signal where Broadcast is needed, 4 correct channels, 5 done channel never closed, 6-9 goroutines + select
		if variant >= 6 {
			spawnSelf(t, variant-6)
			count("runs", 1)
			return
		}
		if variant >= 4 {
			chanSelf(t, variant == 5)
			count("runs", 1)
			return
		}
		var (
			rw      sync.RWMutex
			mu      sync.Mutex
			cond    = sync.NewCond(&mu)
			once    sync.Once
			wg      sync.WaitGroup
			shared  = map[string]int{}
			ready   bool
			inits   int
			waiters = 2 + uni(t, "waiters", 2)
		)
		opts := drawSched(t, 200)
		sim := simrt.NewSim(rapidChooser{t}, opts)
		for i := 0; i < 2; i++ {
			i := i
			sim.Go("writer", func() {
				for n := 0; n < 2; n++ {
					simrt.OnceDo(&once, func() { inits++ }, "once")
					if variant == 1 && i == 1 {
						shared["k"] = n // no lock
					} else {
						simrt.Lock(&rw, "w.lock")
						shared["k"] = n
						simrt.Unlock(&rw, "w.unlock")
					}
				}
			})
		}
		for i := 0; i < 2; i++ {
			sim.Go("reader", func() {
				simrt.RLock(&rw, "r.rlock")
				_ = shared["k"]
				if variant == 2 {
					simrt.RLock(&rw, "r.rlock2") // recursive read lock
					_ = shared["k"]
					simrt.RUnlock(&rw, "r.runlock2")
				}
				simrt.RUnlock(&rw, "r.runlock")
			})
		}
		simrt.WGAdd(&wg, waiters, "wg.add")
		for i := 0; i < waiters; i++ {
			sim.Go("waiter", func() {
				simrt.Lock(&mu, "c.lock")
				for !ready {
					simrt.CondWait(cond, "c.wait")
				}
				simrt.Unlock(&mu, "c.unlock")
				simrt.WGDone(&wg, "wg.done")
			})
		}
		sim.Go("signaller", func() {
			simrt.Lock(&mu, "s.lock")
			ready = true
			if variant == 3 {
				simrt.CondSignal(cond, "s.signal")
			} else {
				simrt.CondBroadcast(cond, "s.broadcast")
			}
			simrt.Unlock(&mu, "s.unlock")
			simrt.WGWait(&wg, "wg.wait")
		})
		mark := raceBegin()
		err := sim.Run()
		races, text := raceEnd(mark)
		count("simself_runs", 1)
		switch variant {
		case 0:
			if err != nil || races != 0 || inits != 1 {
				t.Fatalf("VERIF-INTERNAL simrt self-test: correct program reported err=%v races=%d inits=%d\n%s", err, races, inits, text)
			}
		case 1:
			if simrt.RaceEnabled && races == 0 && sim.Switches > 0 {
				count("simself_race_missed", 1) // possible (accidental HB edge), must be rare
			} else if races > 0 {
				count("simself_race_found", 1)
			}
		case 2:
			if _, ok := err.(*simrt.Deadlock); ok {
				count("simself_rlock_deadlock_found", 1)
			} else if err != nil || races != 0 {
				t.Fatalf("VERIF-INTERNAL simrt self-test: recursive RLock variant reported err=%v races=%d\n%s", err, races, text)
			}
		case 3:
			if _, ok := err.(*simrt.Deadlock); ok {
				count("simself_lost_wakeup_found", 1)
			} else if err != nil || races != 0 {
				t.Fatalf("VERIF-INTERNAL simrt self-test: Signal variant reported err=%v races=%d\n%s", err, races, text)
			}
		}
		count("runs", 1)
	})
}

// chanSelf: channel operations under the simulator. Correct use (an unbuffered
// hand-off that is the ONLY synchronisation for a shared variable, a buffered
// channel as a semaphore, a done channel closed by the producer) must give no
// race report and no deadlock; a done channel that is never closed must be
// reported as a deadlock.
func chanSelf(t *rapid.T, neverClose bool) {
	var (
		data  = make(chan int)         // unbuffered
		ack   = make(chan struct{})    // unbuffered
		sem   = make(chan struct{}, 1) // buffered: a semaphore
		done  = make(chan struct{})
		box   int // written by the producer before each send, read by the consumer after each receive
		total int // protected by sem
		sum   int
	)
	sim := simrt.NewSim(rapidChooser{t}, drawSched(t, 100))
	sim.Go("producer", func() {
		for i := 1; i <= 3; i++ {
			box = i * 10
			simrt.ChanSend(data, i, "p.send")
			simrt.ChanRecv1(ack, "p.ack") // the consumer is done with box
		}
		if !neverClose {
			simrt.ChanClose(done, "p.close")
		}
	})
	sim.Go("consumer", func() {
		for i := 1; i <= 3; i++ {
			v := simrt.ChanRecv1(data, "c.recv")
			sum += v + box
			simrt.ChanSend(ack, struct{}{}, "c.ack")
		}
	})
	for i := 0; i < 2; i++ {
		sim.Go("worker", func() {
			simrt.ChanSend(sem, struct{}{}, "w.acquire")
			total++
			simrt.ChanRecv1(sem, "w.release")
			_, ok := simrt.ChanRecv2(done, "w.done")
			if ok {
				panic("receive from closed channel reported ok")
			}
		})
	}
	mark := raceBegin()
	err := sim.Run()
	races, text := raceEnd(mark)
	count("simself_runs", 1)
	if neverClose {
		if _, ok := err.(*simrt.Deadlock); ok {
			count("simself_chan_never_closed_found", 1)
			return
		}
		t.Fatalf("VERIF-INTERNAL simrt self-test: done channel never closed, but err=%v", err)
	}
	if err != nil || races != 0 || sum != 6+60 || total != 2 {
		t.Fatalf("VERIF-INTERNAL simrt self-test: correct channel program reported err=%v races=%d sum=%d total=%d\n%s", err, races, sum, total, text)
	}
	count("simself_chan_correct", 1)
}

// spawnSelf: goroutines started inside a task (simrt.Spawn) and select.
//
//	mode 0  correct: a caller fans work out to spawned goroutines, collects the results with a select over a
//	        result channel and a buffered error channel, relies on BOTH rendezvous edges of unbuffered
//	        channels (send -> receive and receive -> send completes): no report, right result
//	mode 1  a spawned goroutine writes a variable the caller reads without synchronisation: race
//	mode 2  the caller selects (no default) on channels nobody ever serves: deadlock
//	mode 3  correct, but one spawned goroutine stays parked for ever after the callers returned: a leak,
//	        not a deadlock
func spawnSelf(t *rapid.T, mode int) {
	var (
		results = make(chan int)      // unbuffered
		errs    = make(chan error, 4) // buffered
		never   = make(chan struct{})
		gate    = make(chan struct{}) // unbuffered: receive -> send-completes edge
		flag    int                   // written by the receiver before it receives from gate, read by the sender after its send
		sum     int
		loose   int
		got     int
	)
	n := 2 + uni(t, "workers", 3)
	sim := simrt.NewSim(rapidChooser{t}, drawSched(t, 100))
	sim.Go("caller", func() {
		for i := 1; i <= n; i++ {
			i := i
			simrt.Spawn(func() {
				if mode == 1 && i == 1 {
					loose = 7 // no synchronisation with the caller's read
				}
				if i%2 == 0 {
					simrt.ChanSend(errs, error(nil), "w.err")
				}
				simrt.ChanSend(results, i, "w.res")
			}, "spawn")
		}
		if mode == 1 {
			_ = loose // nothing orders this read with the spawned goroutine's write
		}
		if mode == 3 {
			simrt.Spawn(func() { simrt.ChanRecv1(never, "leak.recv") }, "spawn.leak")
		}
		for got < n {
			r := simrt.RecvCase(results)
			e := simrt.RecvCase(errs)
			sel := simrt.Select("c.select", false, r, e)
			switch sel.Index {
			case 0:
				v, ok := simrt.SelRecv2(r, sel)
				if !ok {
					panic("select receive from an open channel reported !ok")
				}
				sum += v
				got++
			case 1:
				_ = simrt.SelRecv1(e, sel)
			}
		}
		if mode == 2 {
			simrt.Select("c.stuck", false, simrt.RecvCase(never), simrt.SendCase(never, struct{}{}))
		}
		// default clause: nothing is ready
		if sel := simrt.Select("c.default", true, simrt.RecvCase(never)); sel.Index != -1 {
			panic("select with default took a clause that is not ready")
		}
	})
	sim.Go("gatekeeper", func() {
		flag = 1
		simrt.ChanRecv1(gate, "g.recv")
	})
	sim.Go("visitor", func() {
		simrt.ChanSend(gate, struct{}{}, "v.send")
		if flag != 1 { // ordered by receive -> send completes
			panic("rendezvous did not order the receiver's earlier write")
		}
	})
	mark := raceBegin()
	err := sim.Run()
	races, text := raceEnd(mark)
	count("simself_runs", 1)
	want := n * (n + 1) / 2
	switch mode {
	case 0, 3:
		if err != nil || races != 0 || sum != want || sim.Spawned < n {
			t.Fatalf("VERIF-INTERNAL simrt self-test: correct goroutine/select program (mode %d) reported err=%v races=%d sum=%d want=%d spawned=%d\n%s", mode, err, races, sum, want, sim.Spawned, text)
		}
		if mode == 3 {
			if sim.Leaked != 1 {
				t.Fatalf("VERIF-INTERNAL simrt self-test: leaked goroutine not counted (leaked=%d)", sim.Leaked)
			}
			count("simself_leak_tolerated", 1)
		} else {
			count("simself_spawn_select_correct", 1)
		}
	case 1:
		if races > 0 {
			count("simself_spawn_race_found", 1)
		} else if simrt.RaceEnabled {
			count("simself_spawn_race_missed", 1)
		}
		if err != nil {
			t.Fatalf("VERIF-INTERNAL simrt self-test: racy goroutine program reported err=%v", err)
		}
	case 2:
		if _, ok := err.(*simrt.Deadlock); ok {
			count("simself_select_deadlock_found", 1)
		} else {
			t.Fatalf("VERIF-INTERNAL simrt self-test: select on dead channels, but err=%v", err)
		}
	}
}

package harness

import (
	"flag"
	"os"
	"strings"
	"testing"
)

// TestMain initialises the environment and writes the worker's statistics.
func TestMain(m *testing.M) {
	for _, p := range strings.Split(os.Getenv("VERIF_PROPS"), ",") {
		if p = strings.TrimSpace(p); p != "" {
			enabledProps[p] = true
		}
	}
	loadKnown()
	flag.Parse()
	code := m.Run()
	writeStats()
	os.Exit(code)
}

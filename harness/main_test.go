package harness

import (
	"flag"
	"os"
	"runtime"
	"strconv"
	"strings"
	"testing"

	"github.com/gobuffalo/plush/v5/simrt"
)

// TestMain initialises the environment and writes the worker's statistics.
func TestMain(m *testing.M) {
	for _, p := range strings.Split(os.Getenv("VERIF_PROPS"), ",") {
		if p = strings.TrimSpace(p); p != "" {
			enabledProps[p] = true
		}
	}
	loadKnown()
	// the environment templates can read through env()/envOr() is the harness's
	os.Setenv("VERIF_ENV_A", "env<A>&")
	os.Unsetenv("VERIF_ENV_MISSING")
	if n, err := strconv.Atoi(os.Getenv("VERIF_TIMER_SITES")); err == nil {
		simrt.TimerSites = n
	}
	if n, err := strconv.Atoi(os.Getenv("VERIF_GO_SITES")); err == nil {
		simrt.GoSites = n
	}
	flag.Parse()
	count("processes_with_gomaxprocs_"+strconv.Itoa(runtime.GOMAXPROCS(0)), 1)
	code := m.Run()
	count("sim_pool_gets", int64(simrt.PoolGets))
	count("sim_pool_reuses", int64(simrt.PoolReuses))
	writeStats()
	os.Exit(code)
}

package harness

import (
	"fmt"
	"regexp"
	"sort"
	"strconv"
	"strings"

	plush "github.com/gobuffalo/plush/v5"
	"github.com/gobuffalo/plush/v5/simrt"
	"pgregory.net/rapid"
)

// Fault engine — C05 (no silent failure) and C15 (error line), DESIGN §5.1/5.2.
// For each generated program: a fault-free run records the dynamic probe
// invocations; then each invocation k is made to fail, in each applicable
// way, in a fresh context.

var lineRe = regexp.MustCompile(`^line (\d+): `)

type faultCase struct {
	k    int
	kind faultKind
}

func kindsFor(pk probeKind) []faultKind {
	switch pk {
	case pkValue, pkMethod:
		return []faultKind{fkErr, fkWrongKind, fkErrTyped, fkErrWrapsTyped, fkErrZeroValue}
	case pkErr, pkOpts:
		return []faultKind{fkErr, fkErrTyped, fkErrZeroValue}
	case pkBlock:
		return []faultKind{fkBlockPre, fkBlockPost}
	}
	return []faultKind{fkErr}
}

func (p *Program) siteOf(inv Invocation) *Site {
	if inv.Kind == pkFeeder {
		return p.FeederSites[inv.Name]
	}
	return p.Sites[inv.ID]
}

func setOrder(mp simrt.MapPolicy, seed uint64) { simrt.SetMapOrder(mp, seed) }

func faultRun(t *rapid.T) {
	// swarm: with or without the template cache (partials and shifted texts then go through it)
	plush.VerifResetCache()
	plush.CacheEnabled = rapid.Bool().Draw(t, "cache")
	defer func() {
		plush.CacheEnabled = false
		plush.VerifResetCache()
	}()
	if plush.CacheEnabled {
		count("fault_cases_with_cache_on", 1)
	}
	renderEntry = []int{0, 0, 0, 1, 2, 3, 4, 5, 6}[uni(t, "entry", 9)]
	defer func() { renderEntry = 0 }()
	count("fault_cases_entry_"+[]string{"Render-or-NewTemplate+Exec", "BuffaloRenderer", "RenderR", "Parse+Exec", "Exec-with-a-cancelled-Go-context", "Template-struct-literal", "Clone-of-NewTemplate-value"}[renderEntry], 1)
	mode := uni(t, "mode", 10)
	switch {
	case mode <= 5:
		faultProbeRun(t)
	case mode <= 6:
		tolerantRun(t)
	case mode <= 7:
		if uni(t, "pagelayout", 2) == 0 {
			pageLayoutRun(t)
		} else {
			brokenTagRun(t)
		}
	default:
		naturalFailRun(t)
	}
}

func faultProbeRun(t *rapid.T) {
	p := genProgram(t, genOpts{probes: true, noise: true, splitTags: true, probePct: 35, mapRegions: true, tolerant: true, toleratedOnly: true})
	mp := simrt.MapPolicy(uni(t, "maporder", 4))
	mseed := rapid.Uint64().Draw(t, "mapseed")
	count("maporder_"+mp.String(), 1)

	det := func(extra map[string]interface{}) func() map[string]interface{} {
		return func() map[string]interface{} {
			d := p.describe()
			d["map_order"] = mp.String()
			for k, v := range extra {
				d[k] = v
			}
			return d
		}
	}

	rt0 := newRuntime(p, true)
	setOrder(mp, mseed)
	out0, err0 := rt0.render()
	count("faultfree_runs", 1)
	if err0 != nil {
		// The generator only writes programs that succeed on a correct
		// evaluator. A failure here is a generator defect or a change to pure
		// evaluation semantics (not C05/C15's business): counted, never a
		// violation of these properties.
		count("faultfree_failed", 1)
		sample(8, func() interface{} {
			return map[string]interface{}{"FAULT-FREE RUN FAILED": err0.Error(), "program": p.describe()}
		})
		if strictGen {
			t.Fatalf("VERIF-INTERNAL fault-free run failed: %v\n--- main ---\n%s\n--- partials ---\n%v", err0, p.Main, p.Partials)
		}
		return
	}
	// determinism of the baseline itself (same order policy, fresh context)
	rt0b := newRuntime(p, true)
	setOrder(mp, mseed)
	out0b, err0b := rt0b.render()
	if err0b != nil || out0b != out0 || len(rt0b.Log) != len(rt0.Log) {
		count("baseline_not_repeatable", 1)
		if strictGen {
			t.Fatalf("VERIF-INTERNAL baseline not repeatable: %q vs %q (%v)", out0, out0b, err0b)
		}
		return
	}
	M := len(rt0.Log)
	count("probe_invocations", int64(M))
	if M == 0 {
		count("programs_without_invocation", 1)
		return
	}
	count("programs", 1)
	for f, n := range p.Features {
		count("feat_"+f, int64(n))
	}

	// fault points
	var ks []int
	limit := 24
	if thorough {
		limit = 1 << 30
	}
	if M <= limit {
		for k := 1; k <= M; k++ {
			ks = append(ks, k)
		}
	} else {
		byClass := map[string][]int{}
		for _, inv := range rt0.Log {
			c := p.siteOf(inv).Class
			byClass[c] = append(byClass[c], inv.Seq)
		}
		var classes []string
		for c := range byClass {
			classes = append(classes, c)
		}
		sort.Strings(classes)
		for len(ks) < limit {
			progressed := false
			for _, c := range classes {
				l := byClass[c]
				if len(l) == 0 || len(ks) >= limit {
					continue
				}
				i := uni(t, "fp", len(l))
				ks = append(ks, l[i])
				byClass[c] = append(l[:i:i], l[i+1:]...)
				progressed = true
			}
			if !progressed {
				break
			}
		}
		sort.Ints(ks)
		count("programs_sampled_fault_points", 1)
	}

	shiftJs := []int{1, 2, 7, 130}
	if thorough {
		shiftJs = []int{1, 2, 7, 100, 130, 1000}
	}

	for _, k := range ks {
		inv := rt0.Log[k-1]
		site := p.siteOf(inv)
		if site == nil {
			t.Fatalf("VERIF-INTERNAL no site for invocation %+v", inv)
		}
		for ki, fk := range kindsFor(inv.Kind) {
			if ki > 0 && !thorough && uni(t, "extrakind", 5) >= 2 {
				// quick tier: the plain error always, each further kind for 2 in 5 fault points
				continue
			}
			rt := newRuntime(p, true)
			rt.FailAt, rt.Kind = k, fk
			setOrder(mp, mseed)
			out, err := rt.render()
			count("fault_runs", 1)
			if !rt.Fired {
				t.Fatalf("VERIF-INTERNAL fault point %d not reached on re-execution (nondeterministic execution?)", k)
			}
			fkName := fk.String()
			if inv.Kind == pkFeeder {
				fkName = "feeder"
				if site.Class == "layout" {
					fkName = "feeder-layout"
				}
			} else if inv.Kind == pkMethod && fk == fkErr {
				fkName = "method"
			} else if inv.Kind == pkErr && fk == fkErr {
				fkName = "err-only"
			} else if site.Late {
				count("fault_fired_inner-late-block", 1)
			}
			count("fault_fired_"+fkName, 1)
			count("pos_fired_"+site.Class, 1)
			count("ctx_fired_"+site.Ctx, 1)
			where := fmt.Sprintf("%s probe %d (%s, class %s) in template %q line %d, invocation %d of %d, fault %s",
				inv.Kind, inv.ID, inv.Name, site.Class, site.Tmpl, site.Line, k, M, fkName)
			ex := map[string]interface{}{"fault": where, "output": out, "error": fmt.Sprint(err)}
			nontrivial := site.Frames > 1 || site.Tmpl != "" || site.Late || strings.Contains(site.Class, "infix") || strings.Contains(site.Class, "condition")
			if nontrivial {
				seen("c05", hashStr(p.Main, strconv.Itoa(k), fkName))
			}

			if _, panicked := err.(*renderPanic); panicked {
				// totality under bad values is C04's subject, not C05's
				count("render_panicked_"+fkName, 1)
				if fk != fkWrongKind {
					violate(t, "C05", "failing-probe-returns-error-not-panic", "c05:panic:"+fkName+":"+site.Class, det(ex))
				}
				continue
			}
			if fk == fkWrongKind {
				count("wrong_kind_runs", 1)
				if err != nil {
					count("wrong_kind_failed", 1)
					if out != "" {
						violate(t, "C05", "failed-render-returns-empty-output", "c05:partial-output:wrong-kind:"+site.Class, det(ex))
					}
				}
			} else {
				// ---- C05
				if err == nil {
					violate(t, "C05", "failing-probe-fails-render", "c05:swallowed:"+fkName+":"+site.Class, det(ex))
				} else if !wrapsAll(err, rt) {
					violate(t, "C05", "error-wraps-original", "c05:not-wrapped:"+fkName+":"+site.Class, det(ex))
				}
				if out != "" {
					violate(t, "C05", "failed-render-returns-empty-output", "c05:partial-output:"+fkName+":"+site.Class, det(ex))
				}
			}
			if err == nil {
				continue
			}
			if fk != fkWrongKind && uni(t, "repeat", 4) == 0 {
				k, fk := k, fk
				repeatFailing(t, p, func() *Runtime {
					r := newRuntime(p, true)
					r.FailAt, r.Kind = k, fk
					setOrder(mp, mseed)
					return r
				}, fkName+":"+site.Class, det(ex))
			}

			// ---- C15
			if !propEnabled("C15") {
				continue
			}
			if site.ElseIf || site.Ambig || p.Features["user_fn_call_cross_template"] > 0 {
				// else-if conditions, and bodies of functions written in one
				// template but run by the evaluator of another (their nested
				// messages carry lines of the other template): the property
				// text does not determine the line
				count("c15_skipped_ambiguous", 1)
				continue
			}
			want := site.TopLine
			count("c15_line_checks", 1)
			if want > 1 {
				seen("c15", hashStr(p.Main, strconv.Itoa(k), fkName))
			}
			m := lineRe.FindStringSubmatch(err.Error())
			if m == nil {
				violate(t, "C15", "error-starts-with-line", "c15:no-line-prefix:"+fkName+":"+site.Class, det(ex))
				continue
			}
			got, _ := strconv.Atoi(m[1])
			if fk == fkWrongKind {
				// the statement that fails is wherever the bad value is
				// consumed, not necessarily the probe's tag: only the prefix
				// and the shift relation are decided for this fault kind
				want = got
				count("c15_wrong_kind_line_not_compared", 1)
			}
			if got != want && site.AltLine != 0 && got == site.AltLine && fk != fkWrongKind {
				// a statement that begins on a later line than its tag: the statement's own line is accepted too
				count("c15_statement_line_accepted", 1)
				want = got
			}
			if got != want {
				ex["expected_line"] = want
				if site.AltLine != 0 {
					ex["also_accepted_line"] = site.AltLine
				}
				ex["reported_line"] = got
				violate(t, "C15", "error-names-line-of-failing-tag", "c15:wrong-line:"+lineClass(site), det(ex))
				continue
			}
			// shift relation
			j := shiftJs[uni(t, "shift", len(shiftJs))]
			sp := *p
			sp.Main = strings.Repeat("\n", j) + p.Main
			srt := newRuntime(&sp, true)
			srt.FailAt, srt.Kind = k, fk
			setOrder(mp, mseed)
			sout, serr := srt.render()
			count("c15_shift_runs", 1)
			rest := err.Error()[len(m[0]):]
			wantErr := fmt.Sprintf("line %d: %s", want+j, rest)
			if serr == nil || sout != "" || normFault(serr.Error()) != normFault(wantErr) {
				ex["shift"] = j
				ex["shifted_error"] = fmt.Sprint(serr)
				ex["expected_shifted_error"] = wantErr
				violate(t, "C15", "shift-by-k-newlines-adds-k", "c15:shift:"+lineClass(site), det(ex))
			}
		}
	}
	sample(3, func() interface{} {
		d := p.describe()
		d["probe_invocations"] = M
		d["fault_points_run"] = len(ks)
		return d
	})
}

// lineClass narrows a C15 signature to where the failing call was written.
func lineClass(s *Site) string {
	w := "main"
	if s.Tmpl != "" {
		w = "partial"
	}
	if s.Late {
		w += "-late"
	}
	return w + ":" + s.Class
}

var faultAddr = regexp.MustCompile(`0x[0-9a-f]+`)

func normFault(s string) string { return faultAddr.ReplaceAllString(s, "0x") }

var strictGen = envInt("VERIF_STRICT_GEN", 0) != 0

// tolerantRun — the one tolerated fault: an unknown identifier used directly
// as a condition or as an operand of ! == != && || counts as nil; anywhere
// else it must fail the render.
func tolerantRun(t *rapid.T) {
	p := genProgram(t, genOpts{tolerant: true, noise: true, splitTags: true})
	mp := simrt.MapPolicy(uni(t, "maporder", 4))
	mseed := rapid.Uint64().Draw(t, "mapseed")
	if len(p.Tolerant) == 0 {
		return
	}
	count("tolerant_programs", 1)
	det := func(extra map[string]interface{}) func() map[string]interface{} {
		return func() map[string]interface{} {
			d := p.describe()
			d["map_order"] = mp.String()
			for k, v := range extra {
				d[k] = v
			}
			return d
		}
	}
	rt := newRuntime(p, true)
	setOrder(mp, mseed)
	out, err := rt.render()
	count("fault_runs", 1)

	firstBad := -1
	for i, u := range p.Tolerant {
		if !u.Tolerated {
			firstBad = i
			break
		}
	}
	if firstBad >= 0 {
		u := p.Tolerant[firstBad]
		count("fault_fired_unknown-identifier-untolerated", 1)
		count("pos_fired_zz:"+u.Class, 1)
		seen("c05", hashStr(p.Main, "zz"))
		ex := map[string]interface{}{"fault": "unbound identifier zz at top level, class " + u.Class + ", line " + strconv.Itoa(u.Line), "output": out, "error": fmt.Sprint(err)}
		if err == nil {
			violate(t, "C05", "unknown-identifier-outside-tolerant-frame-fails", "c05:zz-swallowed:"+u.Class, det(ex))
			return
		}
		if out != "" {
			violate(t, "C05", "failed-render-returns-empty-output", "c05:partial-output:zz:"+u.Class, det(ex))
		}
		if propEnabled("C15") {
			checkLine(t, p, err, u.Line, "zz:"+u.Class, det(ex), func(main string) (string, error) {
				sp := *p
				sp.Main = main
				r := newRuntime(&sp, true)
				setOrder(mp, mseed)
				return r.render()
			})
		}
		return
	}
	// all uses tolerated: must equal the same program with nil written for zz
	for _, u := range p.Tolerant {
		count("fault_fired_unknown-identifier-tolerated", 1)
		count("pos_fired_zz:"+u.Class, 1)
	}
	seen("c05", hashStr(p.Main, "zz-tolerated"))
	q := *p
	q.Main = strings.ReplaceAll(p.Main, "zz", "nil")
	q.Partials = map[string]string{}
	for k, v := range p.Partials {
		q.Partials[k] = strings.ReplaceAll(v, "zz", "nil")
	}
	rq := newRuntime(&q, true)
	setOrder(mp, mseed)
	qout, qerr := rq.render()
	count("fault_runs", 1)
	if qerr != nil {
		count("tolerant_reference_failed", 1)
		if strictGen {
			t.Fatalf("VERIF-INTERNAL nil-reference failed: %v\n%s", qerr, q.Main)
		}
		return
	}
	if err != nil || out != qout {
		ex := map[string]interface{}{"output": out, "error": fmt.Sprint(err), "output_with_nil": qout}
		violate(t, "C05", "tolerated-unknown-identifier-counts-as-nil", "c05:zz-not-nil:"+p.Tolerant[0].Class, det(ex))
	}
}

// checkLine asserts C15 on an error whose failing tag is on line want of the
// main template, then the shift relation through rerender.
func checkLine(t *rapid.T, p *Program, err error, want int, cls string, det func() map[string]interface{}, rerender func(main string) (string, error), alt ...int) {
	count("c15_line_checks", 1)
	if want > 1 {
		seen("c15", hashStr(p.Main, cls))
	}
	m := lineRe.FindStringSubmatch(err.Error())
	if m == nil {
		violate(t, "C15", "error-starts-with-line", "c15:no-line-prefix:"+cls, det)
		return
	}
	got, _ := strconv.Atoi(m[1])
	if got != want && len(alt) > 0 && alt[0] != 0 && got == alt[0] {
		count("c15_statement_line_accepted", 1)
		want = got
	}
	if got != want {
		d := det
		violate(t, "C15", "error-names-line-of-failing-tag", "c15:wrong-line:main:"+cls, func() map[string]interface{} {
			x := d()
			x["expected_line"], x["reported_line"] = want, got
			return x
		})
		return
	}
	js := []int{1, 2, 7, 130}
	if thorough {
		js = append(js, 100, 1000)
	}
	j := js[uni(t, "shift", len(js))]
	sout, serr := rerender(strings.Repeat("\n", j) + p.Main)
	count("c15_shift_runs", 1)
	// every message of the error shifts (a statement the PARSER rejects comes back as several messages)
	wantErr := shiftLines(err.Error(), j)
	if serr == nil || sout != "" || normFault(serr.Error()) != normFault(wantErr) {
		d := det
		violate(t, "C15", "shift-by-k-newlines-adds-k", "c15:shift:main:"+cls, func() map[string]interface{} {
			x := d()
			x["shift"], x["shifted_error"], x["expected_shifted_error"] = j, fmt.Sprint(serr), wantErr
			return x
		})
	}
}

// pageLayoutRun — two renders sharing ONE context, the way buffalo renders a page and then its layout: the page
// stores a block with contentFor, the layout runs it with contentOf. The block fails (an injected fault in a
// probe, or an unknown identifier) only when the LAYOUT runs it: the layout's render must fail, wrap the fault,
// return no output (C05), and name the line of the contentOf tag in the layout, shifting with the layout (C15).
func pageLayoutRun(t *rapid.T) {
	fill := func() *Program {
		return genProgram(t, genOpts{noise: true, maxPieces: 3, noPartials: true, noContent: true})
	}
	f1, f2 := fill(), fill()
	natural := uni(t, "plnatural", 3) == 0
	inner := "<%= pv(9001, n1) %>"
	if natural {
		inner = "<%= nope9 + 1 %>"
	}
	page := f1.Main + "\n<% contentFor(\"cZ\") { %>\nA" + inner + "B\n<% } %>\nend of page\n"
	var layout string
	var wantLine int
	head := f2.Main + "\n"
	switch uni(t, "plshape", 3) {
	case 0:
		layout = head + "<p><%= contentOf(\"cZ\") %></p>\nfooter\n"
		wantLine = 1 + strings.Count(head, "\n")
	case 1:
		layout = head + "<%= if (b1) { %>\n  <%= contentOf(\"cZ\") %>\n<% } %>\nfooter\n"
		wantLine = 2 + strings.Count(head, "\n")
	default:
		layout = head + "<%= for (x) in [1, 2] { %>\n\n  <%= contentOf(\"cZ\", {\"extra\": x}) %>\n<% } %>\n"
		wantLine = 3 + strings.Count(head, "\n")
	}
	mp := simrt.MapPolicy(uni(t, "maporder", 4))
	mseed := rapid.Uint64().Draw(t, "mapseed")
	prog := &Program{Main: page, Partials: map[string]string{}, Sites: map[int]*Site{}, FeederSites: map[string]*Site{}, Features: map[string]int{}, JS: f1.JS}
	run := func(layoutText string, failAt int) (pageOut string, pageErr error, out string, err error, rt *Runtime, afterPage int) {
		rt = newRuntime(prog, true)
		rt.FailAt, rt.Kind = failAt, fkErr
		setOrder(mp, mseed)
		defer func() {
			if r := recover(); r != nil {
				err = &renderPanic{r}
			}
		}()
		herr := underSim(func() {
			ctx := plush.NewContextWith(rt.contextData())
			var tp, tl *plush.Template
			if tp, pageErr = plush.NewTemplate(page); pageErr != nil {
				return
			}
			if pageOut, pageErr = tp.Exec(ctx); pageErr != nil {
				return
			}
			afterPage = len(rt.Log)
			if tl, err = plush.NewTemplate(layoutText); err != nil {
				return
			}
			out, err = tl.Exec(ctx)
		})
		if herr != nil {
			err = herr
		}
		return
	}
	det := func(out string, err error) func() map[string]interface{} {
		return func() map[string]interface{} {
			return map[string]interface{}{"page": page, "layout": layout, "how": "page and layout executed with ONE context; the contentFor block of the page fails when the layout's contentOf runs it",
				"contentOf_line_in_layout": wantLine, "output": out, "error": fmt.Sprint(err), "map_order": mp.String()}
		}
	}
	// fault-free pass: where does the probe inside the block run?
	_, perr, out0, err0, rt0, after := run(layout, 0)
	if perr != nil {
		count("pagelayout_page_failed", 1) // filler failed on its own: generator's business
		return
	}
	k := 0
	if !natural {
		if err0 != nil {
			count("pagelayout_faultfree_failed", 1)
			return
		}
		for _, inv := range rt0.Log[after:] {
			if inv.ID == 9001 {
				k = inv.Seq
				break
			}
		}
		if k == 0 {
			count("pagelayout_probe_not_reached", 1)
			return
		}
	}
	_ = out0
	_, perr, out, err, rt, _ := run(layout, k)
	count("fault_runs", 1)
	count("fault_fired_page-then-layout", 1)
	count("pos_fired_contentFor-block-run-by-the-layout", 1)
	if perr != nil {
		return
	}
	cls := "page-then-layout"
	if natural {
		cls += ":natural"
	}
	if err == nil {
		violate(t, "C05", "failing-probe-fails-render", "c05:swallowed:"+cls, det(out, err))
		return
	}
	if !natural && !wrapsAll(err, rt) {
		violate(t, "C05", "error-wraps-original", "c05:not-wrapped:"+cls, det(out, err))
	}
	if out != "" {
		violate(t, "C05", "failed-render-returns-empty-output", "c05:partial-output:"+cls, det(out, err))
	}
	if !propEnabled("C15") {
		return
	}
	lp := &Program{Main: layout}
	checkLine(t, lp, err, wantLine, cls, det(out, err), func(main string) (string, error) {
		_, _, o, e, _, _ := run(main, k)
		return o, e
	})
}

// naturalFailRun — a generated statement that fails on its own (unknown
// identifier, division by zero, index out of range, type error, ...) at top
// level, after arbitrary earlier material.
func naturalFailRun(t *rapid.T) {
	if uni(t, "nested", 2) == 1 {
		nestedNaturalFailRun(t)
		return
	}
	p := genProgram(t, genOpts{failing: true, noise: true, splitTags: true})
	if p.Failing == "" {
		return
	}
	mp := simrt.MapPolicy(uni(t, "maporder", 4))
	mseed := rapid.Uint64().Draw(t, "mapseed")
	rt := newRuntime(p, true)
	setOrder(mp, mseed)
	out, err := rt.render()
	count("fault_runs", 1)
	count("fault_fired_natural:"+p.Failing, 1)
	count("pos_fired_top-level-statement", 1)
	det := func() map[string]interface{} {
		d := p.describe()
		d["failing_statement"] = p.Failing
		d["failing_line"] = p.FailLine
		d["output"], d["error"] = out, fmt.Sprint(err)
		return d
	}
	seen("c05", hashStr(p.Main, "natural"))
	if _, panicked := err.(*renderPanic); panicked {
		count("render_panicked_natural:"+p.Failing, 1) // a panicking helper panics the render: totality is C04's subject
		return
	}
	if err == nil {
		violate(t, "C05", "failing-operation-fails-render", "c05:natural-swallowed:"+p.Failing, det)
		return
	}
	if out != "" {
		violate(t, "C05", "failed-render-returns-empty-output", "c05:partial-output:natural:"+p.Failing, det)
	}
	repeatFailing(t, p, func() *Runtime { setOrder(mp, mseed); return newRuntime(p, true) }, "natural:"+p.Failing, det)
	if propEnabled("C15") {
		checkLine(t, p, err, p.FailLine, "natural:"+p.Failing, det, func(main string) (string, error) {
			sp := *p
			sp.Main = main
			r := newRuntime(&sp, true)
			setOrder(mp, mseed)
			return r.render()
		}, p.FailAltLine)
	}
}

// repeatFailing — C05 for the 2nd..nth execution of ONE parsed template and for a Clone of it: a failure must
// fail again every time (a result, or "this already failed", remembered in the template or anywhere else must
// not turn a later execution into a success). mk builds a fresh runtime carrying the same fault plan.
func repeatFailing(t *rapid.T, p *Program, mk func() *Runtime, class string, det func() map[string]interface{}) {
	var tm *plush.Template
	var perr error
	if herr := underSim(func() { tm, perr = plush.NewTemplate(p.Main) }); herr != nil || perr != nil {
		return
	}
	n := 2 + uni(t, "repeats", 3)
	for i := 0; i < n; i++ {
		rt := mk()
		x := tm
		how := fmt.Sprintf("execution %d of one parsed template", i+1)
		if i == n-1 {
			x = tm.Clone()
			how = fmt.Sprintf("execution of a Clone after %d executions of the template", i)
		}
		out, err := rt.execOn(x)
		count("fault_repeat_execs", 1)
		d := func() map[string]interface{} {
			m := det()
			m["how"] = how
			m["output"], m["error"] = out, fmt.Sprint(err)
			return m
		}
		if rt.FailAt > 0 && !rt.Fired {
			return // the plan's invocation was not reached (execution differs: C13's subject)
		}
		if err == nil {
			violate(t, "C05", "failing-operation-fails-every-execution", "c05:repeat-swallowed:"+class, d)
			return
		}
		if rt.FailAt > 0 && rt.Kind != fkWrongKind && !wrapsAll(err, rt) {
			violate(t, "C05", "error-wraps-original", "c05:repeat-not-wrapped:"+class, d)
			return
		}
		if out != "" {
			violate(t, "C05", "failed-render-returns-empty-output", "c05:repeat-partial-output:"+class, d)
			return
		}
	}
}

var anyLineRe = regexp.MustCompile(`(?m)^line (\d+): `)

// shiftLines adds k to the N of every "line N: " that starts a line of msg
// (a parse error lists several messages, one per line).
func shiftLines(msg string, k int) string {
	return anyLineRe.ReplaceAllStringFunc(msg, func(s string) string {
		m := anyLineRe.FindStringSubmatch(s)
		n, _ := strconv.Atoi(m[1])
		return fmt.Sprintf("line %d: ", n+k)
	})
}

// brokenTagRun — the parse-error side of C15 for single-line tags: a
// template with one syntactically broken tag (curated kinds, each a single
// line) after arbitrary earlier material must be rejected with an error whose
// first message names the line of that tag, and prepending k newlines must
// add k to every line number in the message and change nothing else.
func brokenTagRun(t *rapid.T) {
	if !propEnabled("C15") {
		naturalFailRun(t)
		return
	}
	var p *Program
	posClass := "top-level-broken-tag"
	if uni(t, "brokeneof", 4) == 0 {
		// the input ENDS inside (or right after) a broken single-line tag, at top level or inside the body of a
		// block that is still open: an unclosed call / array / hash / expression meets the end of the input
		p = genProgram(t, genOpts{noise: true, maxPieces: 4})
		openers := []string{"", "<%= for (x) in xs { %>\n<p>row</p>\n", "<%= if (b1) { %>\n<p>row</p>\n<% } else { %>\n<p>other</p>\n", "<%= pb(0) { %>\ninner\n",
			"<%= if (b1) { %>\n<%= for (x) in xs { %>\n"}
		tails := []string{"<% foo(n1", "<% foo(n1, %>", "<% let y = {\"a\": %>", "<%= [1, 2", "<%= (n1 + %>", "<%= n1 +", "<% let z = ",
			// a for header that never closes its parenthesis: the parser looks ahead for ')' and gives up at a '{' in a
			// later tag or at the end of the input; the error is the header's
			"<%= for (x in xs %>a<% } %>\nlater <%= toJSON({\"a\": 1}) %>\n",
			"<%= for (x in xs %>a\nlater <%= toJSON({\"a\": 1}) %>\n",
			"<%= for (x, y in xs %>a\n\n<% let h = {\"a\": 1} %>\nend",
			"<%= for (x in xs %>a\nnothing more\n"}
		head := p.Main + "\n" + openers[uni(t, "eofopener", len(openers))]
		p.Broken = tails[uni(t, "eoftail", len(tails))]
		p.BrokenLine = 1 + strings.Count(head, "\n")
		p.Main = head + p.Broken
		posClass = "broken-tag-ending-the-input"
	} else {
		p = genProgram(t, genOpts{noise: true, brokenPct: 100})
	}
	if p.Broken == "" {
		return
	}
	mp := simrt.MapPolicy(uni(t, "maporder", 4))
	mseed := rapid.Uint64().Draw(t, "mapseed")
	render := func(main string) (string, error) {
		sp := *p
		sp.Main = main
		r := newRuntime(&sp, true)
		setOrder(mp, mseed)
		return r.render()
	}
	out, err := render(p.Main)
	count("fault_runs", 1)
	count("fault_fired_syntax-error", 1)
	count("pos_fired_"+posClass, 1)
	det := func() map[string]interface{} {
		d := p.describe()
		d["broken_tag"], d["broken_line"] = p.Broken, p.BrokenLine
		d["output"], d["error"] = out, fmt.Sprint(err)
		return d
	}
	if err == nil {
		// whether a template is rejected at all is not C15's subject (the
		// parser accepts `continue` after a for over a call expression has
		// ended, for one): C15 speaks about the errors that ARE returned
		count("c15_broken_tag_accepted", 1)
		return
	}
	if out != "" {
		violate(t, "C15", "rejected-template-returns-empty-output", "c15:syntax-partial-output", det)
		return
	}
	if _, panicked := err.(*renderPanic); panicked {
		count("render_panicked_syntax-error", 1)
		return // totality of parsing is C03's subject
	}
	count("c15_line_checks", 1)
	if p.BrokenLine > 1 {
		seen("c15", hashStr(p.Main, "broken"))
	}
	m := lineRe.FindStringSubmatch(err.Error())
	if m == nil {
		violate(t, "C15", "error-starts-with-line", "c15:no-line-prefix:syntax", det)
		return
	}
	if got, _ := strconv.Atoi(m[1]); got != p.BrokenLine {
		violate(t, "C15", "error-names-line-of-failing-tag", "c15:wrong-line:syntax", func() map[string]interface{} {
			d := det()
			d["expected_line"], d["reported_line"] = p.BrokenLine, got
			return d
		})
		return
	}
	js := []int{1, 2, 7}
	if thorough {
		js = append(js, 100)
	}
	j := js[uni(t, "shift", len(js))]
	var sout string
	var serr error
	if uni(t, "reusetemplate", 4) == 0 {
		// the shifted text goes into the SAME Template value whose parse just failed (Input is an exported field;
		// NewTemplate returns the value together with the error): Parse must look at the text it has now
		count("c15_shift_through_reused_template", 1)
		func() {
			defer func() {
				if r := recover(); r != nil {
					serr = &renderPanic{r}
				}
			}()
			tm, _ := plush.NewTemplate(p.Main)
			if tm == nil {
				tm = &plush.Template{}
			}
			tm.Input = strings.Repeat("\n", j) + p.Main
			if serr = tm.Parse(); serr == nil {
				sout, serr = tm.Exec(plush.NewContextWith(newRuntime(p, true).contextData()))
			}
		}()
	} else {
		sout, serr = render(strings.Repeat("\n", j) + p.Main)
	}
	count("c15_shift_runs", 1)
	want := shiftLines(err.Error(), j)
	if serr == nil || sout != "" || serr.Error() != want {
		violate(t, "C15", "shift-by-k-newlines-adds-k", "c15:shift:syntax", func() map[string]interface{} {
			d := det()
			d["shift"], d["shifted_error"], d["expected_shifted_error"] = j, fmt.Sprint(serr), want
			return d
		})
	}
}

// nestedNaturalFailRun — like naturalFailRun, but the failing operation sits
// anywhere (if/for/fn/block bodies, contentFor blocks, partials, layouts). A
// marker probe evaluated in the same tag right before it tells whether the
// operation was reached; only then is anything asserted.
func nestedNaturalFailRun(t *rapid.T) {
	p := genProgram(t, genOpts{probes: true, probePct: 5, failNested: true, noise: true, splitTags: true})
	if p.FailMarker == nil {
		return
	}
	mp := simrt.MapPolicy(uni(t, "maporder", 4))
	mseed := rapid.Uint64().Draw(t, "mapseed")
	rt := newRuntime(p, true)
	setOrder(mp, mseed)
	out, err := rt.render()
	count("fault_runs", 1)
	reached := false
	for _, inv := range rt.Log {
		if inv.ID == p.FailMarker.ID && inv.Kind == pkValue {
			reached = true
		}
	}
	if !reached {
		count("nested_natural_not_reached", 1)
		return
	}
	site := p.FailMarker
	count("fault_fired_natural-nested:"+p.Failing, 1)
	count("pos_fired_nested-statement", 1)
	count("ctx_fired_"+site.Ctx, 1)
	det := func() map[string]interface{} {
		d := p.describe()
		d["failing_statement"] = p.Failing + " (nested, in " + site.Ctx + ", template " + fmt.Sprintf("%q", site.Tmpl) + " line " + strconv.Itoa(site.Line) + ")"
		d["output"], d["error"] = out, fmt.Sprint(err)
		return d
	}
	seen("c05", hashStr(p.Main, "natural-nested"))
	if _, panicked := err.(*renderPanic); panicked {
		count("render_panicked_natural-nested", 1)
		return
	}
	if err == nil {
		violate(t, "C05", "failing-operation-fails-render", "c05:natural-swallowed:nested:"+p.Failing, det)
		return
	}
	if out != "" {
		violate(t, "C05", "failed-render-returns-empty-output", "c05:partial-output:natural-nested:"+p.Failing, det)
	}
	repeatFailing(t, p, func() *Runtime { setOrder(mp, mseed); return newRuntime(p, true) }, "natural-nested:"+p.Failing, det)
	if !propEnabled("C15") || site.ElseIf || site.Ambig || p.Features["user_fn_call_cross_template"] > 0 {
		return
	}
	checkLine(t, p, err, site.TopLine, "natural-nested:"+p.Failing, det, func(main string) (string, error) {
		sp := *p
		sp.Main = main
		r := newRuntime(&sp, true)
		setOrder(mp, mseed)
		return r.render()
	})
}

package harness

import (
	"context"
	"fmt"
	"reflect"
	"sort"
	"strings"

	plush "github.com/gobuffalo/plush/v5"
	"pgregory.net/rapid"
)

// C10 — Context behaves as a chain of scopes for every history of
// New/Set/Value/Has (DESIGN.md §5.5). Reference model written from the
// property text: a tree of maps.

type mkind int

const (
	mNil mkind = iota
	mInt
	mStr
	mUserFn
	mBuiltin
	mBool
	mTypedNil   // (*int)(nil): a non-nil interface value, so Has is true
	mEmptySlice // []int{}: non-nil
	mInt64      // int64(5): Value returns what was Set, type included
	mUint8      // uint8(200)
	mFloat32    // float32(0.1)
	mBigUint    // a uint64 above MaxInt64
)

var c10TypedNil *int

type mval struct {
	kind mkind
	i    int
	s    string // string value or builtin helper name
}

func (v mval) String() string {
	switch v.kind {
	case mNil:
		return "nil"
	case mInt:
		return fmt.Sprint(v.i)
	case mStr:
		return fmt.Sprintf("%q", v.s)
	case mUserFn:
		return "userFn"
	case mBuiltin:
		return "builtin:" + v.s
	case mBool:
		return "false"
	case mTypedNil:
		return "(*int)(nil)"
	case mEmptySlice:
		return "[]int{}"
	case mInt64:
		return "int64(5)"
	case mUint8:
		return "uint8(200)"
	case mFloat32:
		return "float32(0.1)"
	case mBigUint:
		return "uint64(1<<63+7)"
	}
	return "?"
}

func c10UserFn() string { return "user function" }

var c10UserFnPtr = reflect.ValueOf(c10UserFn).Pointer()

func (v mval) real() interface{} {
	switch v.kind {
	case mInt:
		return v.i
	case mStr:
		return v.s
	case mUserFn:
		return c10UserFn
	case mBuiltin:
		return plush.Helpers.All()[v.s]
	case mBool:
		return false
	case mTypedNil:
		return c10TypedNil
	case mEmptySlice:
		return []int{}
	case mInt64:
		return int64(5)
	case mUint8:
		return uint8(200)
	case mFloat32:
		return float32(0.1)
	case mBigUint:
		return uint64(1<<63 + 7)
	}
	return nil
}

// matches compares what plush returned with the model's value without ever
// comparing func values with ==.
func (v mval) matches(real interface{}) bool {
	switch v.kind {
	case mNil:
		return real == nil
	case mInt:
		i, ok := real.(int)
		return ok && i == v.i
	case mStr:
		s, ok := real.(string)
		return ok && s == v.s
	case mBool:
		b, ok := real.(bool)
		return ok && !b
	case mTypedNil:
		p, ok := real.(*int)
		return ok && p == nil
	case mEmptySlice:
		s, ok := real.([]int)
		return ok && len(s) == 0 && s != nil
	case mInt64:
		x, ok := real.(int64)
		return ok && x == 5
	case mUint8:
		x, ok := real.(uint8)
		return ok && x == 200
	case mFloat32:
		x, ok := real.(float32)
		return ok && x == float32(0.1)
	case mBigUint:
		x, ok := real.(uint64)
		return ok && x == 1<<63+7
	case mUserFn:
		rv := reflect.ValueOf(real)
		return rv.IsValid() && rv.Kind() == reflect.Func && rv.Pointer() == c10UserFnPtr
	case mBuiltin:
		rv := reflect.ValueOf(real)
		want := reflect.ValueOf(plush.Helpers.All()[v.s])
		return rv.IsValid() && rv.Kind() == reflect.Func && want.IsValid() && rv.Pointer() == want.Pointer()
	}
	return false
}

func describeReal(x interface{}) string {
	if x == nil {
		return "nil"
	}
	rv := reflect.ValueOf(x)
	if rv.Kind() == reflect.Func {
		if rv.Pointer() == c10UserFnPtr {
			return "userFn"
		}
		for name, h := range plush.Helpers.All() {
			hv := reflect.ValueOf(h)
			if hv.Kind() == reflect.Func && hv.Pointer() == rv.Pointer() {
				return "builtin:" + name + "(or alias)"
			}
		}
		return "func?"
	}
	return fmt.Sprintf("%#v", x)
}

// mctx is the reference model of one scope.
type mctx struct {
	id        int
	parent    *mctx
	data      map[string]mval
	wrapped   map[string]mval // root only: values of the wrapped context.Context
	wrapCtx   *mctx           // root only: the wrapped context.Context is itself a plush context
	typedKey  bool            // root only: the wrapped context.Context carries wrappedKey("b") = 99
	ambiguous map[string]bool // helper names whose observation is not compared (see DESIGN §5.5)
	real      *plush.Context
}

func (c *mctx) lookup(k string) (mval, bool) {
	for s := c; s != nil; s = s.parent {
		if v, ok := s.data[k]; ok {
			return v, true
		}
		if s.parent == nil {
			if v, ok := s.wrapped[k]; ok {
				return v, true
			}
			if s.wrapCtx != nil {
				// the wrapped context answers with its own Value: nil and "not
				// bound" look the same from outside
				if v := s.wrapCtx.value(k); v.kind != mNil {
					return v, true
				}
			}
		}
	}
	return mval{}, false
}

func (c *mctx) value(k string) mval {
	v, _ := c.lookup(k)
	return v
}

func (c *mctx) has(k string) bool { return c.value(k).kind != mNil }

var c10HelperNames []string

// c10Late: helpers registered through plush.Helpers.Add in the middle of the running history (removed again when
// the history ends). A context built afterwards receives them like any other default helper; contexts that
// already exist, and their ancestors, are not touched.
var c10Late []string

func c10LateHelper1() string { return "late helper 1" }
func c10LateHelper2() string { return "late helper 2" }

func helperNames() []string {
	if c10HelperNames == nil {
		for k := range plush.Helpers.All() {
			if k != "xh1" && k != "xh2" {
				c10HelperNames = append(c10HelperNames, k)
			}
		}
		sort.Strings(c10HelperNames)
	}
	if len(c10Late) == 0 {
		return c10HelperNames
	}
	return append(append([]string{}, c10HelperNames...), c10Late...)
}

// inject applies the construction rule from the property text: a new context
// receives each default helper locally iff Has(helper) is false on it and on
// its whole outer chain at construction time.
func (c *mctx) inject() {
	for _, h := range helperNames() {
		if v, bound := c.lookup(h); bound && v.kind == mNil {
			// user bound a helper name to nil somewhere on the chain: the two
			// clauses of the property disagree about what c should observe
			c.ambiguous[h] = true
		}
		if c.parent != nil && c.parent.ambiguous[h] {
			if _, own := c.data[h]; !own {
				c.ambiguous[h] = true
			}
		}
		if !c.has(h) {
			c.data[h] = mval{kind: mBuiltin, s: h}
		}
	}
}

var (
	c10Keys     = []string{"a", "b", "len", "partial", "w", "A", "a.b", "contentFor:x", "_u", "Len", "_", "", "a b", "ü", "0", "nil", "true"}
	c10Observed = []string{"a", "b", "len", "partial", "w", "raw", "truncate", "contentFor", "zz", "A", "a.b", "contentFor:x", "_u", "Len", "xh1", "xh2", "_", "", "a b", "ü", "0", "nil", "true"}
)

// swarm: each history draws its own small subsets of keys and values, so that
// the same few bindings are written, shadowed, nilled and re-bound repeatedly
var (
	runKeys []string
	runVals []int
)

func drawSwarm(t *rapid.T) {
	nk := rapid.IntRange(1, len(c10Keys)).Draw(t, "nkeys")
	perm := rapid.Permutation(append([]string{}, c10Keys...)).Draw(t, "keyperm")
	runKeys = perm[:nk]
	nv := rapid.IntRange(2, 16).Draw(t, "nvals")
	vp := rapid.Permutation([]int{0, 1, 2, 3, 4, 5, 6, 7, 8, 9, 10, 11, 12, 13, 14, 15}).Draw(t, "valperm")
	runVals = vp[:nv]
}

func drawKey(t *rapid.T, label string) string {
	return runKeys[uni(t, label, len(runKeys))]
}

func drawVal(t *rapid.T, label string) mval {
	switch runVals[uni(t, label, len(runVals))] {
	case 6:
		return mval{kind: mInt, i: 0} // non-nil "empty" values: Has must be true
	case 7:
		return mval{kind: mStr, s: ""}
	case 8:
		return mval{kind: mBool}
	case 9:
		return mval{kind: mStr, s: "1"} // prints like the int 1
	case 10:
		return mval{kind: mTypedNil}
	case 11:
		return mval{kind: mEmptySlice}
	case 12:
		return mval{kind: mInt64} // sized numbers: a context stores what it is given, type included
	case 13:
		return mval{kind: mUint8}
	case 14:
		return mval{kind: mFloat32}
	case 15:
		return mval{kind: mBigUint}
	case 0:
		return mval{kind: mNil}
	case 1:
		return mval{kind: mInt, i: 1}
	case 2:
		return mval{kind: mInt, i: 2}
	case 3:
		return mval{kind: mStr, s: "s"}
	case 4:
		return mval{kind: mUserFn}
	default:
		return mval{kind: mInt, i: 3}
	}
}

func drawData(t *rapid.T) (map[string]mval, map[string]interface{}) {
	n := rapid.IntRange(0, 3).Draw(t, "ndata")
	m := map[string]mval{}
	r := map[string]interface{}{}
	for i := 0; i < n; i++ {
		k := drawKey(t, "dkey")
		if k == "w" {
			k = "a"
		}
		v := drawVal(t, "dval")
		m[k] = v
		r[k] = v.real()
	}
	return m, r
}

type wrappedKey string

// typedValue: does Value(wrappedKey("b")) answer on this context? Only through the embedded context.Context.
func (c *mctx) typedValue() bool {
	if c.parent != nil {
		return false
	}
	if c.wrapCtx != nil {
		return c.wrapCtx.typedValue()
	}
	return c.typedKey
}

// c10Run executes one history against plush and the model.
func c10Run(t *rapid.T) {
	defer func() {
		for _, n := range c10Late {
			delete(plush.Helpers.Helpers(), n)
		}
		c10Late = nil
	}()
	mp := drawMapOrder(t)
	drawSwarm(t)
	obsMode := uni(t, "obsmode", 3)
	maxCtx := []int{4, 10, 10, 40}[uni(t, "maxctx", 4)]
	nops := rapid.IntRange(1, 60).Draw(t, "nops")
	var live []*mctx
	var hist []string
	nextID := 0

	fail := func(inv, sig, msg string) func() map[string]interface{} {
		return func() map[string]interface{} {
			return map[string]interface{}{"history": append([]string{}, hist...), "message": msg, "map_order": mp.String()}
		}
	}

	sizeHistory := uni(t, "sizehistory", 8) == 0 // one history in eight may contain the (slow) size-variation ops
	var bulkObserved []string                    // keys written by the bulk-set op of this history
	checkAll := func() {
		for _, c := range live {
			// a key of a named string type is NOT a scope name: the scopes are not consulted, only the embedded
			// context.Context of the context asked (a nested scope has an empty one)
			wantTyped := c.typedValue()
			if got := c.real.Value(wrappedKey("b")); (got != nil) != wantTyped || (wantTyped && got != 99) {
				violate(t, "C10", "typed-key-is-not-a-scope-name", "value:typed-key", fail("", "", fmt.Sprintf("ctx#%d.Value(wrappedKey(\"b\")) = %s, expected %s", c.id, describeReal(got), map[bool]string{true: "99 (from the wrapped context.Context)", false: "nil"}[wantTyped])))
			}
			if got := c.real.Value(wrappedKey("w")); got != nil {
				violate(t, "C10", "typed-key-is-not-a-scope-name", "value:typed-key", fail("", "", fmt.Sprintf("ctx#%d.Value(wrappedKey(\"w\")) = %s, expected nil (no context.Context carries that key)", c.id, describeReal(got))))
			}
			count("c10_typed_key_observations", 2)
			for _, k := range append(append([]string{}, c10Observed...), bulkObserved...) {
				if c.ambiguous[k] {
					count("c10_skipped_nil_helper", 1)
					continue
				}
				want := c.value(k)
				got := c.real.Value(k)
				count("c10_observations", 1)
				if !want.matches(got) {
					violate(t, "C10", "value-equals-model", "value:"+classOf(k), fail("", "", fmt.Sprintf("after the history, ctx#%d.Value(%q) = %s, model says %s", c.id, k, describeReal(got), want)))
				}
				if gh := c.real.Has(k); gh != (want.kind != mNil) {
					violate(t, "C10", "has-equals-model", "has:"+classOf(k), fail("", "", fmt.Sprintf("after the history, ctx#%d.Has(%q) = %v, model value %s", c.id, k, gh, want)))
				}
			}
		}
	}

	// observation is itself an operation (a read can trigger lazy work or fill
	// caches): some histories look at everything after every step, some only
	// now and then, some only at the very end
	checkAllMaybe := func() {
		switch obsMode {
		case 0:
			checkAll()
		case 1:
			if uni(t, "observe", 4) == 0 {
				hist = append(hist, "(observe all)")
				checkAll()
			}
		}
	}

	newModel := func(parent *mctx, data map[string]mval, wrapped map[string]mval) *mctx {
		c := &mctx{id: nextID, parent: parent, data: data, wrapped: wrapped, ambiguous: map[string]bool{}}
		nextID++
		c.inject()
		return c
	}

	for op := 0; op < nops; op++ {
		kind := uni(t, "op", 12)
		if len(live) == 0 {
			kind = kind % 3
		}
		// a default helper registered while contexts already exist
		if len(c10Late) < 2 && uni(t, "lateop", 40) == 0 {
			name := []string{"xh1", "xh2"}[len(c10Late)]
			hist = append(hist, fmt.Sprintf("plush.Helpers.Add(%q, fn)", name))
			_ = plush.Helpers.Add(name, []interface{}{c10LateHelper1, c10LateHelper2}[len(c10Late)])
			c10Late = append(c10Late, name)
			count("c10_late_helper_registrations", 1)
			checkAllMaybe()
			continue
		}
		// the embedded context.Context is an exported field: assigning it is legal. On a root it replaces what
		// string-key misses fall through to; on a nested scope it has no effect on string keys (the chain of
		// scopes is followed, not the embedded context)
		if len(live) > 0 && uni(t, "embedop", 30) == 0 {
			c := live[uni(t, "ctx", len(live))]
			wv := drawVal(t, "wval")
			hist = append(hist, fmt.Sprintf("ctx#%d.Context = ctx{w:%s}", c.id, wv))
			c.real.Context = context.WithValue(context.Background(), "w", wv.real()) //nolint
			if c.parent == nil {
				c.wrapped = map[string]mval{"w": wv}
				c.wrapCtx = nil
				c.typedKey = false
			}
			count("c10_embedded_context_assignments", 1)
			checkAllMaybe()
			continue
		}
		// size variation (thresholds: depth limits, small-scope storage that changes representation when
		// it grows): rare, because a deep chain makes every later observation slower
		if sizeHistory && len(live) > 0 && uni(t, "sizeop", 12) == 0 {
			if rapid.Bool().Draw(t, "deepchain") && len(live) < maxCtx {
				// a chain of d New() calls below some context; the leaf (and one scope in the middle) stay live
				p := live[uni(t, "parent", len(live))]
				d := []int{20, 99, 100, 101, 130}[uni(t, "chaindepth", 5)]
				hist = append(hist, fmt.Sprintf("ctx#%d .. ctx#%d = chain of %d New() calls below ctx#%d", nextID, nextID+d-1, d, p.id))
				mid := d / 2
				for i := 0; i < d; i++ {
					c := newModel(p, map[string]mval{}, nil)
					rc, ok := p.real.New().(*plush.Context)
					if !ok {
						violate(t, "C10", "new-returns-context", "new-type", fail("", "", "New() did not return a *plush.Context"))
						return
					}
					c.real = rc
					if i == mid || i == d-1 {
						live = append(live, c)
					}
					p = c
				}
				count("c10_deep_chains", 1)
			} else {
				// many distinct keys on one scope, then one of the early ones is overwritten
				c := live[uni(t, "ctx", len(live))]
				n := []int{8, 9, 10, 17, 40, 70}[uni(t, "bulkn", 6)]
				hist = append(hist, fmt.Sprintf("ctx#%d.Set(k0..k%d, 100..)", c.id, n-1))
				for i := 0; i < n; i++ {
					k := fmt.Sprintf("k%d", i)
					c.data[k] = mval{kind: mInt, i: 100 + i}
					c.real.Set(k, 100+i)
				}
				over := uni(t, "bulkover", n)
				k := fmt.Sprintf("k%d", over)
				hist = append(hist, fmt.Sprintf("ctx#%d.Set(%q, 7)", c.id, k))
				c.data[k] = mval{kind: mInt, i: 7}
				c.real.Set(k, 7)
				for _, o := range []int{0, 3, 7, 8, n - 1, over} {
					if o < n {
						bulkObserved = append(bulkObserved, fmt.Sprintf("k%d", o))
					}
				}
				count("c10_bulk_sets", 1)
			}
			checkAllMaybe()
			continue
		}
		if kind == 2 && len(live) > 0 && len(live) < maxCtx && uni(t, "doublewrap", 3) == 0 {
			// NewContextWithContext given a *plush.Context: a second way to chain scopes
			w := live[uni(t, "wrapctx", len(live))]
			hist = append(hist, fmt.Sprintf("ctx#%d = NewContextWithContext(ctx#%d)", nextID, w.id))
			c := newModel(nil, map[string]mval{}, nil)
			c.wrapCtx = w
			c.real = plush.NewContextWithContext(w.real)
			live = append(live, c)
			checkAllMaybe()
			continue
		}
		switch {
		case kind == 0 && len(live) < maxCtx:
			hist = append(hist, fmt.Sprintf("ctx#%d = NewContext()", nextID))
			c := newModel(nil, map[string]mval{}, nil)
			c.real = plush.NewContext()
			live = append(live, c)
		case kind == 1 && len(live) < maxCtx:
			md, rd := drawData(t)
			hist = append(hist, fmt.Sprintf("ctx#%d = NewContextWith(%s)", nextID, fmtData(md)))
			c := newModel(nil, md, nil)
			c.real = plush.NewContextWith(rd)
			live = append(live, c)
		case kind == 2 && len(live) < maxCtx:
			wv := drawVal(t, "wval")
			wa := drawVal(t, "waval")
			var base context.Context = context.Background()
			// a wrapped context.Context is consulted last, with the key as
			// given; plush passes string keys through unchanged
			base = context.WithValue(base, "w", wv.real()) //nolint
			base = context.WithValue(base, "a", wa.real()) //nolint
			// a helper NAME bound in the wrapped context: the new root still installs the built-in locally, and
			// local bindings come before the wrapped context
			base = context.WithValue(base, "truncate", "wrapped value under a helper name") //nolint
			base = context.WithValue(base, wrappedKey("b"), 99)
			hist = append(hist, fmt.Sprintf("ctx#%d = NewContextWithContext(ctx{w:%s, a:%s})", nextID, wv, wa))
			// NewContextWithContext builds the context (helpers injected
			// against an empty chain) and only then attaches the wrapped one.
			c := newModel(nil, map[string]mval{}, nil)
			c.wrapped = map[string]mval{"w": wv, "a": wa}
			c.typedKey = true
			c.real = plush.NewContextWithContext(base)
			live = append(live, c)
		case kind == 3 && len(live) < maxCtx:
			p := live[uni(t, "parent", len(live))]
			if rapid.Bool().Draw(t, "deep") {
				p = live[len(live)-1] // grow a chain: depth matters (depth-limited lookups)
			}
			hist = append(hist, fmt.Sprintf("ctx#%d = ctx#%d.New()", nextID, p.id))
			c := newModel(p, map[string]mval{}, nil)
			n := p.real.New()
			rc, ok := n.(*plush.Context)
			if !ok {
				violate(t, "C10", "new-returns-context", "new-type", fail("", "", fmt.Sprintf("New() returned %T", n)))
				return
			}
			c.real = rc
			live = append(live, c)
		case kind == 4 && len(live) < maxCtx:
			p := live[uni(t, "parent", len(live))]
			md, rd := drawData(t)
			hist = append(hist, fmt.Sprintf("ctx#%d = NewContextWithOuter(%s, ctx#%d)", nextID, fmtData(md), p.id))
			c := newModel(p, md, nil)
			c.real = plush.NewContextWithOuter(rd, p.real)
			live = append(live, c)
		case kind <= 8:
			c := live[uni(t, "ctx", len(live))]
			k := drawKey(t, "key")
			v := drawVal(t, "val")
			hist = append(hist, fmt.Sprintf("ctx#%d.Set(%q, %s)", c.id, k, v))
			c.data[k] = v
			if v.kind != mNil {
				delete(c.ambiguous, k)
			} else if isHelperName(k) {
				// nothing to do now: ambiguity starts for contexts built later
			}
			c.real.Set(k, v.real())
			count("c10_sets", 1)
		case kind <= 10:
			c := live[uni(t, "ctx", len(live))]
			k := c10Observed[uni(t, "key", len(c10Observed))]
			hist = append(hist, fmt.Sprintf("ctx#%d.Value(%q)", c.id, k))
			if !c.ambiguous[k] {
				want := c.value(k)
				got := c.real.Value(k)
				if !want.matches(got) {
					violate(t, "C10", "value-op-equals-model", "value:"+classOf(k), fail("", "", fmt.Sprintf("ctx#%d.Value(%q) = %s, model says %s", c.id, k, describeReal(got), want)))
				}
			}
		default:
			c := live[uni(t, "ctx", len(live))]
			k := c10Observed[uni(t, "key", len(c10Observed))]
			hist = append(hist, fmt.Sprintf("ctx#%d.Has(%q)", c.id, k))
			if !c.ambiguous[k] {
				want := c.has(k)
				if got := c.real.Has(k); got != want {
					violate(t, "C10", "has-op-equals-model", "has:"+classOf(k), fail("", "", fmt.Sprintf("ctx#%d.Has(%q) = %v, model says %v", c.id, k, got, want)))
				}
			}
		}
		checkAllMaybe()
	}
	if obsMode != 0 {
		hist = append(hist, "(observe all)")
		checkAll()
	}
	count("c10_ops", int64(len(hist)))
	countMax("c10_max_contexts", int64(len(live)))
	depth := 0
	for _, c := range live {
		d := 0
		for s := c; s != nil; s = s.parent {
			d++
		}
		if d > depth {
			depth = d
		}
	}
	countMax("c10_max_depth", int64(depth))
	if len(hist) >= 3 && len(live) >= 2 {
		seen("c10", hashStr(hist...))
	}
	sample(4, func() interface{} {
		return map[string]interface{}{"history": append([]string{}, hist...), "map_order": mp.String()}
	})
}

func isHelperName(k string) bool {
	_, ok := plush.Helpers.All()[k]
	return ok
}

// classOf narrows a violation signature: plain key, helper name, wrapped key.
func classOf(k string) string {
	switch {
	case k == "w":
		return "wrapped-key"
	case k == "zz":
		return "unbound-key"
	case isHelperName(k):
		return "helper-name"
	}
	return "plain-key"
}

func fmtData(m map[string]mval) string {
	var parts []string
	for _, k := range c10Keys {
		if v, ok := m[k]; ok {
			parts = append(parts, fmt.Sprintf("%s:%s", k, v))
		}
	}
	return "{" + strings.Join(parts, ", ") + "}"
}

package harness

import (
	"context"
	"errors"
	"fmt"
	"html/template"
	"sort"
	"strings"
	"time"

	plush "github.com/gobuffalo/plush/v5"
)

// InjectedFault is the error a failing probe returns. Identity matters:
// errors.Is(err, fault) must hold on what Render returns.
type InjectedFault struct {
	Seq int
	ID  int
}

func (f *InjectedFault) Error() string {
	return fmt.Sprintf("injected fault at probe %d (invocation %d)", f.ID, f.Seq)
}

// ProbeError is an error interface of the harness' own: a helper may declare
// it (instead of plain error) as its last result.
type ProbeError interface {
	error
	Probe() int
}

func (f *InjectedFault) Probe() int { return f.ID }

// probeErrWrap gives any fault value the ProbeError shape (errors.Is still
// reaches the wrapped fault).
type probeErrWrap struct{ error }

func (w probeErrWrap) Probe() int    { return 0 }
func (w probeErrWrap) Unwrap() error { return w.error }

func asProbeError(e error) ProbeError {
	if pe, ok := e.(ProbeError); ok {
		return pe
	}
	return probeErrWrap{e}
}

type faultKind int

const (
	fkNone          faultKind = iota
	fkErr                     // probe returns (nil, fault) / fault
	fkBlockPre                // pb fails before running its block
	fkBlockPost               // pb fails after running its block
	fkWrongKind               // pv/PM return a value of a kind the consumer rejects
	fkErrTyped                // like fkErr, but the error value is a *plush.ErrUnknownIdentifier (a failing helper is not an unknown identifier, whatever its error's type)
	fkErrWrapsTyped           // like fkErr, but the error wraps a *plush.ErrUnknownIdentifier
	fkErrZeroValue            // like fkErr, but the error is the ZERO VALUE of a non-pointer error type (struct{}): non-nil as an error all the same
)

// zeroErr is a non-pointer error type whose only value is its zero value.
type zeroErr struct{}

func (zeroErr) Error() string { return "injected fault (zero value of a struct error type)" }

func (k faultKind) String() string {
	return [...]string{"none", "err", "block-pre", "block-post", "wrong-kind", "err-typed-unknown-identifier", "err-wraps-unknown-identifier", "err-zero-value-of-struct-type"}[k]
}

// Invocation is one dynamic probe call.
type Invocation struct {
	Seq  int
	ID   int    // probe id (0 for feeder)
	Name string // feeder: partial name
	Kind probeKind
}

// Runtime is the per-render state of the probes: invocation log + fault plan.
// A Runtime with Record == false touches no memory when probes run, so its
// helpers can sit in a context shared by concurrent tasks.
type Runtime struct {
	Prog     *Program
	Record   bool
	Log      []Invocation
	FailAt   int // 1-based invocation number that fails, 0 = none
	Kind     faultKind
	Fault    error
	ScopeObs []string // what sibobs() saw, call by call
	Own      []error  // errors of their own that helpers returned around a nested failure (pr2)
	Fired    bool
	FiredK   probeKind
	FiredI   Invocation
	Variant  int                    // data builder variant (C13/C14): equal variants build deep-equal data
	Reuse    map[string]interface{} // non-nil: the caller re-uses its nested data objects (maps, slices) from render to render; first build fills it
	Ctx      *ctxProbe              // C10 inside renders: contexts kept by helpers (nil: helpers ck/pbd are inert)
}

type wrongKind struct{ why string }

func (rt *Runtime) enter(id int, name string, k probeKind) bool {
	if !rt.Record {
		return false
	}
	inv := Invocation{Seq: len(rt.Log) + 1, ID: id, Name: name, Kind: k}
	rt.Log = append(rt.Log, inv)
	if rt.FailAt == inv.Seq {
		rt.Fired = true
		rt.FiredK = k
		rt.FiredI = inv
		switch rt.Kind {
		case fkErrTyped:
			rt.Fault = &plush.ErrUnknownIdentifier{ID: fmt.Sprintf("injected-%d", id), Err: fmt.Errorf("injected fault at probe %d (invocation %d)", id, inv.Seq)}
		case fkErrWrapsTyped:
			rt.Fault = fmt.Errorf("injected fault at probe %d (invocation %d): %w", id, inv.Seq, &plush.ErrUnknownIdentifier{ID: "inner"})
		case fkErrZeroValue:
			rt.Fault = zeroErr{}
		default:
			rt.Fault = &InjectedFault{Seq: inv.Seq, ID: id}
		}
		return true
	}
	return false
}

// Obj is the struct exposed to templates as "obj".
type Obj struct {
	Name  string
	N     int
	On    bool
	Tags  []string
	Nums  []int
	Inner *Inner
	Kids  []*Inner
	KM    map[string]*Inner
	rt    *Runtime
}

// VObj is held by VALUE in the context ("vobj"); its probe method has a pointer
// receiver, so plush finds it through its pointer fallback.
type VObj struct {
	Name string
	rt   *Runtime
}

func (o *VObj) PV(id int, v interface{}) (interface{}, error) {
	if o.rt.enter(id, "", pkMethod) {
		if o.rt.Kind == fkWrongKind {
			return wrongKind{"method"}, nil
		}
		return v, o.rt.Fault // non-nil first result together with the error
	}
	return v, nil
}

// ownErr: what a helper returns around the failure of a render it started itself.
type ownErr struct {
	id  int
	err error
}

func (e *ownErr) Error() string {
	if e.err == nil {
		return fmt.Sprintf("helper-rendered snippet %d failed", e.id)
	}
	return fmt.Sprintf("helper-rendered snippet %d failed: %v", e.id, e.err)
}
func (e *ownErr) Unwrap() error { return e.err }

// wrapsAll: the injected fault and every error a helper returned around it are in err's chain.
func wrapsAll(err error, rt *Runtime) bool {
	if !errors.Is(err, rt.Fault) {
		return false
	}
	for _, w := range rt.Own {
		if !errors.Is(err, w) {
			return false
		}
	}
	return true
}

// closingIter is a plush Iterator (Next) that also has the io.Closer method.
type closingIter struct{ n, i int }

func (c *closingIter) Next() interface{} {
	if c.i >= c.n {
		return nil
	}
	c.i++
	return c.i
}
func (c *closingIter) Close() error { return nil }

// Dual is reached from templates both by value ("dv") and through a pointer
// ("dp"). Its method set differs between Dual (Archive, Balance) and *Dual
// (Archive, Balance, Title, Zed): the same method name has a different index.
type Dual struct {
	Label string
	Bal   int
}

func (d Dual) Balance() string   { return fmt.Sprintf("balance:%d", d.Bal) }
func (d *Dual) Title() string    { return "label:" + d.Label }
func (d Dual) Archive() string   { return "archived:" + d.Label }
func (d *Dual) Zed() string      { return "zed:" + d.Label }
func (d *Dual) Aardvark() string { return "aardvark" }

// stringer / HTMLer values for the output path
type stg struct{ s string }

func (s stg) String() string { return "stg(" + s.s + ")" }

type htm struct{ s string }

func (h htm) HTML() template.HTML { return template.HTML("<i>" + h.s + "</i>") }

// Car has an ID: pathFor(car) = /cars/7
type Car struct {
	ID   int
	Name string
}

// localCar returns a value of a function-local type named Car: reflect prints it exactly like the package-level
// Car ("...Car"), but it is a different type with its fields in another order.
func localCar(v int) interface{} {
	type Car struct {
		Name string
		Slug string
		ID   int
	}
	return Car{Name: "local", Slug: "local-car-" + fmt.Sprint(v), ID: 70 + v}
}

// Page has a Slug: pathFor(page) = /pages/hello-world-0
type Page struct {
	Slug  string
	Title string
}

type Inner struct {
	Label string
	Depth int
	Kids  []*Inner
}

// kids: slice-of-struct fields reached as obj.Kids[i].Label (an indexed FIELD followed by a member: plush evaluates
// that through a scope of its own)
func kids(v int) []*Inner {
	return []*Inner{{Label: "k0v" + fmt.Sprint(v), Depth: 1}, {Label: "k<1", Depth: 2, Kids: []*Inner{{Label: "kk" + fmt.Sprint(v)}}}}
}

func (o *Obj) Self() *Obj            { return o }
func (o *Obj) Add(a, b int) int      { return a + b }
func (o *Obj) Greet(s string) string { return "hi " + s }

// Tok1..Tok4: zero-argument probe methods (ids 9101..9104) that templates reference WITHOUT parentheses. plush
// does not call them today; they are dormant fault points (harness/gen.go). Value receivers on a struct held by
// value: that is the shape for which a reference without a call renders as nothing instead of failing.
func (o VObj) tok(id int) (string, error) {
	if o.rt.enter(id, "", pkMethod) {
		if o.rt.Kind == fkWrongKind {
			return "", nil
		}
		return "tok", o.rt.Fault
	}
	return "tok", nil
}
func (o VObj) Tok1() (string, error) { return o.tok(9101) }
func (o VObj) Tok2() (string, error) { return o.tok(9102) }
func (o VObj) Tok3() error           { _, err := o.tok(9103); return err }
func (o VObj) Tok4() error           { _, err := o.tok(9104); return err }

// Wrap is a block helper that is a METHOD: obj.Wrap(id) { ... }, objs[0].Wrap(id) { ... }, obj.Self().Wrap(id) { ... }
func (o *Obj) Wrap(id int, help plush.HelperContext) (template.HTML, error) {
	fire := o.rt.enter(id, "", pkBlock)
	if fire && o.rt.Kind != fkBlockPost {
		return "", o.rt.Fault
	}
	s := ""
	if help.HasBlock() {
		var err error
		if s, err = help.Block(); err != nil {
			return "", err
		}
	}
	if fire {
		return "", o.rt.Fault
	}
	return template.HTML("(" + s + ")"), nil
}

// PS is the head of a chained call: obj.PS(id).Name
func (o *Obj) PS(id int) (*Obj, error) {
	if o.rt.enter(id, "", pkMethod) {
		if o.rt.Kind == fkWrongKind {
			return nil, nil
		}
		return o, o.rt.Fault // a usable value together with the error
	}
	return o, nil
}

func (o *Obj) PM(id int, v interface{}) (interface{}, error) {
	if o.rt.enter(id, "", pkMethod) {
		if o.rt.Kind == fkWrongKind {
			return wrongKind{"method"}, nil
		}
		return nil, o.rt.Fault
	}
	return v, nil
}

var fixedTime = time.Date(2020, 2, 3, 4, 5, 6, 0, time.UTC)
var fixedTimeCopy = fixedTime

// contextData builds a fresh, deep-equal data map for one render.
func (rt *Runtime) contextData() map[string]interface{} {
	d := rt.plainData()
	for k, v := range rt.helperData() {
		d[k] = v
	}
	return d
}

// plainData is the value part of the context data.
func (rt *Runtime) plainData() map[string]interface{} {
	v := rt.Variant
	d := map[string]interface{}{
		"rx":   []string{"^a", "c!$", "^x|y$"}[v%3],
		"f64":  1.5,
		"car":  Car{ID: 7 + v, Name: "beetle"},
		"car2": localCar(v), // another struct type that PRINTS as harness.Car (declared inside a function): ID first
		"page": Page{Slug: "hello-world-" + fmt.Sprint(v), Title: "Hello"},
		"many": []int{0, 1, 2, 3, 4, 5, 6, 7, 8, 9, 10, 11, 12, 13, 14, 15, 16, 17, 18, 19},
		"n1":   3 + v, "n2": 7, "s1": "ab<c" + strings.Repeat("!", v), "s2": "x y", "b1": true, "b0": false,
		"xs":  []int{4 + v, 5, 6},
		"ss":  []string{"p", "q&"},
		"mi":  map[string]int{"k1": 1, "k2": 2, "k3": 3, "k4": 4},
		"one": map[string]int{"only": 1},
		"m1":  map[string]interface{}{"n": 5, "s": "str", "b": true},
		"obj": &Obj{Name: "bot", N: 9, On: true, Tags: []string{"t1", "t<2"}, Nums: []int{1, 2, 3}, Inner: &Inner{Label: "in", Depth: 2, Kids: kids(v)}, Kids: kids(v), KM: map[string]*Inner{"a": kids(v)[0]}, rt: rt},
		"tm":  fixedTime,
		// the same instant in two other zones, and through a pointer
		"tm2": fixedTime.In(time.FixedZone("JST", 9*3600)),
		"tm3": fixedTime.In(time.FixedZone("", -5*3600)),
		"tmp": &fixedTimeCopy,
		// an options map the caller holds in a variable (and may pass to every render)
		// a slice with spare capacity (built with append by the caller)
		"xcap":  append(make([]int, 0, 8), 1+v, 2, 3),
		"topts": map[string]interface{}{"size": 6 + v, "trail": "~"},
		"topt2": map[string]interface{}{"size": 4},
		"objs": []*Obj{
			{Name: "o0", N: 10, Tags: []string{"a0", "b0"}, Nums: []int{7, 8, 9}, Inner: &Inner{Label: "i0", Depth: 0}, rt: rt},
			{Name: "o1", N: 11, Tags: []string{"a1", "b1"}, Nums: []int{7, 8, 9}, Inner: &Inner{Label: "i1", Depth: 1}, rt: rt},
		},
		"om": map[string]*Obj{"x": {Name: "ox", N: 12, Kids: kids(v), rt: rt}},
		// nil elements: a method with a pointer receiver that does not touch it can be called on them
		"nobjs": []*Obj{nil, {Name: "n1", N: 13, rt: rt}},
		"nm":    map[string]*Obj{"x": nil},
		"vobj":  VObj{Name: "val", rt: rt},
		"dv":    Dual{Label: "val" + fmt.Sprint(v), Bal: 12 + v},
		"dp":    &Dual{Label: "ptr" + fmt.Sprint(v), Bal: 40 + v},
		"stg":   stg{"s" + fmt.Sprint(v)},
		"htm":   htm{"h&" + fmt.Sprint(v)},
	}
	if rt.Prog != nil {
		for name, m := range rt.Prog.CtxMaps {
			c := map[string]interface{}{}
			for k, x := range m {
				c[k] = x
			}
			d[name] = c
		}
	}
	if rt.Reuse != nil {
		// a caller that builds its maps and slices once and passes the same objects to every render
		for k, x := range d {
			switch x.(type) {
			case map[string]interface{}, map[string]int, []int, []string:
				if old, ok := rt.Reuse[k]; ok {
					d[k] = old
				} else {
					rt.Reuse[k] = x
				}
			}
		}
	}
	if rt.Prog != nil && rt.Prog.JS {
		d["contentType"] = "application/javascript"
	}
	if v == 1 {
		d["TIME_FORMAT"] = "2006-01-02"
	}
	return d
}

// helperData is the function part: probes and the partial feeder.
func (rt *Runtime) helperData() map[string]interface{} {
	d := map[string]interface{}{
		"n2": 8, // also present in plainData with another value: helpers are laid over data
		"pv": func(id int, v interface{}) (interface{}, error) {
			if rt.enter(id, "", pkValue) {
				if rt.Kind == fkWrongKind {
					return wrongKind{"value"}, nil
				}
				return nil, rt.Fault
			}
			return v, nil
		},
		"pvi": func(id int, v interface{}) (interface{}, ProbeError) {
			if rt.enter(id, "", pkValue) {
				if rt.Kind == fkWrongKind {
					return wrongKind{"value"}, nil
				}
				return nil, asProbeError(rt.Fault)
			}
			return v, nil
		},
		"pv3": func(id int, v interface{}) (interface{}, int, error) {
			if rt.enter(id, "", pkValue) {
				if rt.Kind == fkWrongKind {
					return wrongKind{"value"}, 1, nil
				}
				return nil, 2, rt.Fault
			}
			return v, 3, nil
		},
		// a helper that panics, always with the same value: the render panics (or fails) the same way every time
		"ppanic": func() string { panic("harness: this helper panics") },
		"pe": func(id int) error {
			if rt.enter(id, "", pkErr) {
				return rt.Fault
			}
			return nil
		},
		"pb": func(id int, help plush.HelperContext) (template.HTML, error) {
			fire := rt.enter(id, "", pkBlock)
			if fire && rt.Kind != fkBlockPost {
				return "", rt.Fault
			}
			s := ""
			if help.HasBlock() {
				var err error
				s, err = help.Block()
				if err != nil {
					return "", err
				}
			}
			if fire {
				return "", rt.Fault
			}
			return template.HTML("[" + s + "]"), nil
		},
		"pbw": func(id int, data map[string]interface{}, help plush.HelperContext) (template.HTML, error) {
			fire := id != 0 && rt.enter(id, "", pkBlock)
			if fire && rt.Kind != fkBlockPost {
				return "", rt.Fault
			}
			c := help.New()
			for k, v := range data {
				c.Set(k, v)
			}
			s, err := help.BlockWith(c)
			if err != nil {
				return "", err
			}
			if fire {
				return "", rt.Fault
			}
			return template.HTML("<" + s + ">"), nil
		},
		"po": func(id int, opts map[string]interface{}) (string, error) {
			if rt.enter(id, "", pkOpts) {
				return "", rt.Fault
			}
			ks := make([]string, 0, len(opts))
			for k := range opts {
				ks = append(ks, k)
			}
			sort.Strings(ks)
			var sb strings.Builder
			for _, k := range ks {
				fmt.Fprintf(&sb, "%s=%v;", k, opts[k])
			}
			return sb.String(), nil
		},
		// tag-style helper: writes into the options map it was given (or that
		// plush supplied when the call left it out), like buffalo's tag helpers
		"tagopts": func(s string, opts map[string]interface{}) string {
			if opts["class"] == nil {
				opts["class"] = "c-" + s
			}
			delete(opts, "data")
			opts["n"] = len(opts)
			return fmt.Sprintf("<%v %v>", opts["class"], opts["n"])
		},
		"sum": func(first int, rest ...int) int {
			for _, r := range rest {
				first += r
			}
			return first
		},
		"p3": func(id, a, b, c int, opts map[string]interface{}, help plush.HelperContext) (int, error) {
			if id != 0 && rt.enter(id, "", pkOpts) {
				// a helper may return a non-nil value together with its error
				return a + b + c, rt.Fault
			}
			if opts == nil || help.Context == nil {
				return 0, fmt.Errorf("harness: options map / helper context not supplied")
			}
			return a + b + c + len(opts), nil
		},
		"pr": func(id int, s string, help plush.HelperContext) (string, error) {
			if id != 0 && rt.enter(id, "", pkOpts) {
				return "partial result", rt.Fault
			}
			return help.Render("{<%= n2 %>:" + strings.ReplaceAll(strings.ReplaceAll(s, "<", "("), "%", "pct") + "}")
		},
		"pr2": func(inner int, help plush.HelperContext) (string, error) {
			out, err := help.Render(fmt.Sprintf("{<%%= pv(%d, n1) %%>}", inner))
			if err != nil && inner%2 == 1 {
				// the helper returns an error OF ITS OWN around the failure of the nested render: that value is the
				// "original error" of this helper call and must be found in what Render returns
				w := &ownErr{id: inner, err: err}
				rt.Own = append(rt.Own, w)
				if inner%4 == 3 {
					w.err = nil
					return "", errors.Join(w, err)
				}
				return "", w
			}
			return out, err
		},
		// sibobs reports what the scope it is called in observes under a key; pbn runs its block in a private child
		// scope that carries a binding of its own (scope snippets, harness/c10exec.go)
		"sibobs": func(key string, help plush.HelperContext) string {
			if rt.Ctx != nil {
				v := help.Value(key)
				s := describeReal(v)
				if h := help.Has(key); h != (v != nil) {
					s += fmt.Sprintf(" BUT Has=%v", h)
				}
				rt.ScopeObs = append(rt.ScopeObs, s)
			}
			return ""
		},
		"pbn": func(help plush.HelperContext) (template.HTML, error) {
			priv := help.New()
			priv.Set("sibk", 1)
			help.Context = priv // the idiom PartialHelper itself uses
			s, err := help.Block()
			return template.HTML(s), err
		},
		// ck keeps the context it is handed; pbd runs its block with a root context of its own (harness/c10exec.go)
		"ck": func(help plush.HelperContext) string {
			if rt.Ctx != nil {
				rt.Ctx.keep(help)
			}
			return ""
		},
		"pbd": func(v int, help plush.HelperContext) (template.HTML, error) {
			root := plush.NewContextWith(map[string]interface{}{"bw": v})
			var before []string
			if rt.Ctx != nil {
				before = rt.Ctx.observe(root)
			}
			s, err := help.BlockWith(root)
			if rt.Ctx != nil {
				rt.Ctx.detached(root, before)
			}
			if err != nil {
				return "", err
			}
			return template.HTML("{" + s + "}"), nil
		},
		"partialFeeder": func(name string) (string, error) {
			if rt.enter(0, name, pkFeeder) {
				return "", rt.Fault
			}
			s, ok := rt.Prog.Partials[name]
			if !ok {
				return "", fmt.Errorf("harness: no partial named %q", name)
			}
			return s, nil
		},
	}
	// needblock: a block helper that runs its block without asking whether it was given one
	d["needblock"] = func(help plush.HelperContext) (template.HTML, error) {
		s, err := help.Block()
		return template.HTML("[" + s + "]"), err
	}
	// citer: a fresh Iterator with a Close method per call
	d["citer"] = func() *closingIter { return &closingIter{n: 3} }
	// vh: same name, same number of parameters, another trailing parameter for every caller
	switch rt.Variant {
	case 0:
		d["vh"] = func(a int, opts map[string]interface{}) string { return fmt.Sprintf("vh%d opts=%d", a, len(opts)) }
	case 1:
		d["vh"] = func(a int, help plush.HelperContext) string { return fmt.Sprintf("vh%d block=%v", a, help.HasBlock()) }
	default:
		d["vh"] = func(a int, extra interface{}) string { return fmt.Sprintf("vh%d extra=%v", a, extra) }
	}
	if rt.Variant == 1 {
		// this caller overrides two default helpers: its values win in this context and all its descendants
		d["upcase"] = func(s string) string { return "UP(" + s + ")" }
		d["len"] = func(v interface{}) int { return 4242 }
	}
	return d
}

func newRuntime(p *Program, record bool) *Runtime { return &Runtime{Prog: p, Record: record} }

// renderPanic is what render returns when plush (or a helper it called)
// panicked instead of returning.
type renderPanic struct{ v interface{} }

func (p *renderPanic) Error() string { return fmt.Sprintf("PANIC: %v", p.v) }

// renderEntry selects the public entry point render() goes through: 0 Render (cache on) / NewTemplate+Exec
// (cache off), 1 BuffaloRenderer, 2 RenderR, 3 Parse+Exec. Set per case by the fault engine; C05 and C15 speak
// about every way of rendering a template.
var renderEntry int

// render executes the program's main template with a fresh context.
func (rt *Runtime) render() (out string, err error) {
	defer func() {
		if r := recover(); r != nil {
			out, err = "", &renderPanic{r}
		}
	}()
	herr := underSim(func() {
		switch renderEntry {
		case 4: // the caller's Go context is already cancelled (plush does not look at it; a failure stays the failure)
			cctx, cancel := context.WithCancel(context.Background())
			cancel()
			c := plush.NewContextWithContext(cctx)
			for k, v := range rt.contextData() {
				c.Set(k, v)
			}
			var t *plush.Template
			if t, err = plush.NewTemplate(rt.Prog.Main); err != nil {
				out = ""
				return
			}
			out, err = t.Exec(c)
			return
		case 5: // a Template value the caller builds itself (exported struct, exported field): parsed on first use
			t := &plush.Template{Input: rt.Prog.Main}
			out, err = t.Exec(plush.NewContextWith(rt.contextData()))
			return
		case 6: // the value NewTemplate returns, cloned: after a failed parse the clone parses for itself
			t, perr := plush.NewTemplate(rt.Prog.Main)
			if t == nil {
				out, err = "", perr
				return
			}
			out, err = t.Clone().Exec(plush.NewContextWith(rt.contextData()))
			return
		case 1: // the entry point buffalo uses: data and helpers as two maps
			out, err = plush.BuffaloRenderer(rt.Prog.Main, rt.plainData(), rt.helperData())
			return
		case 2: // template text from a reader
			out, err = plush.RenderR(strings.NewReader(rt.Prog.Main), plush.NewContextWith(rt.contextData()))
			return
		case 3: // Parse (cache-aware) then Exec
			var t *plush.Template
			if t, err = plush.Parse(rt.Prog.Main); err != nil {
				out = ""
				return
			}
			out, err = t.Exec(plush.NewContextWith(rt.contextData()))
			return
		}
		ctx := plush.NewContextWith(rt.contextData())
		if plush.CacheEnabled {
			out, err = plush.Render(rt.Prog.Main, ctx)
			return
		}
		var t *plush.Template
		if t, err = plush.NewTemplate(rt.Prog.Main); err != nil {
			out = ""
			return
		}
		out, err = t.Exec(ctx)
	})
	if herr != nil {
		return "", herr
	}
	return out, err
}

// execOn executes an already parsed template with a fresh context.
func (rt *Runtime) execOn(tm *plush.Template) (out string, err error) {
	defer func() {
		if r := recover(); r != nil {
			out, err = "", &renderPanic{r}
		}
	}()
	herr := underSim(func() {
		out, err = tm.Exec(plush.NewContextWith(rt.contextData()))
	})
	if herr != nil {
		return "", herr
	}
	return out, err
}

func (p *Program) describe() map[string]interface{} {
	return map[string]interface{}{"main": p.Main, "partials": p.Partials, "js": p.JS}
}

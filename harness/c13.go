package harness

import (
	"fmt"
	"hash/fnv"
	"io"
	"reflect"
	"sort"
	"strings"

	plush "github.com/gobuffalo/plush/v5"
	"github.com/gobuffalo/plush/v5/simrt"
	"pgregory.net/rapid"
)

// C13 — rendering is a deterministic function of template and data; templates
// are immutable (DESIGN.md §5.3). A history of parse/exec/clone/cache
// operations over a family of programs; after every operation the result must
// equal the result of the same (program, data) rendered alone, freshly
// parsed, and no parsed program may have changed.

// ------------------------------------------------------------ tree snapshots

// snapshot returns a structural fingerprint of v: all fields, slice lengths,
// map entries and pointer identities (addresses are stable: Go's GC does not
// move heap objects).
func snapshot(v interface{}) uint64 {
	h := fnv.New64a()
	seenPtr := map[uintptr]bool{}
	var walk func(rv reflect.Value, depth int)
	w := func(format string, a ...interface{}) { fmt.Fprintf(h, format, a...) }
	walk = func(rv reflect.Value, depth int) {
		if !rv.IsValid() {
			w("<invalid>")
			return
		}
		if depth > 200 {
			w("<deep>")
			return
		}
		switch rv.Kind() {
		case reflect.Ptr:
			if rv.IsNil() {
				w("nilptr;")
				return
			}
			p := rv.Pointer()
			w("ptr%x;", p)
			if seenPtr[p] {
				return
			}
			seenPtr[p] = true
			walk(rv.Elem(), depth+1)
		case reflect.Interface:
			if rv.IsNil() {
				w("nilif;")
				return
			}
			w("if(%s);", rv.Elem().Type())
			walk(rv.Elem(), depth+1)
		case reflect.Struct:
			w("struct(%s){", rv.Type())
			for i := 0; i < rv.NumField(); i++ {
				w("%s:", rv.Type().Field(i).Name)
				walk(rv.Field(i), depth+1)
			}
			w("}")
		case reflect.Slice:
			if rv.IsNil() {
				w("nilslice;")
				return
			}
			w("slice[%d@%x]{", rv.Len(), rv.Pointer())
			for i := 0; i < rv.Len(); i++ {
				walk(rv.Index(i), depth+1)
			}
			w("}")
		case reflect.Array:
			w("array[%d]{", rv.Len())
			for i := 0; i < rv.Len(); i++ {
				walk(rv.Index(i), depth+1)
			}
			w("}")
		case reflect.Map:
			if rv.IsNil() {
				w("nilmap;")
				return
			}
			type ent struct {
				key string
				k   reflect.Value
			}
			var es []ent
			for _, k := range rv.MapKeys() {
				es = append(es, ent{keyIdentity(k), k})
			}
			sort.Slice(es, func(i, j int) bool { return es[i].key < es[j].key })
			w("map[%d@%x]{", len(es), rv.Pointer())
			for _, e := range es {
				w("%s=>", e.key)
				walk(e.k, depth+1)
				walk(rv.MapIndex(e.k), depth+1)
			}
			w("}")
		case reflect.String:
			w("%q;", rv.String())
		case reflect.Bool:
			w("%v;", rv.Bool())
		case reflect.Int, reflect.Int8, reflect.Int16, reflect.Int32, reflect.Int64:
			w("%d;", rv.Int())
		case reflect.Uint, reflect.Uint8, reflect.Uint16, reflect.Uint32, reflect.Uint64, reflect.Uintptr:
			w("%d;", rv.Uint())
		case reflect.Float32, reflect.Float64:
			w("%v;", rv.Float())
		case reflect.Func, reflect.Chan, reflect.UnsafePointer:
			if rv.IsNil() {
				w("nilfn;")
			} else {
				w("fn%x;", rv.Pointer())
			}
		default:
			w("?%s;", rv.Kind())
		}
	}
	walk(reflect.ValueOf(v), 0)
	return h.Sum64()
}

func keyIdentity(k reflect.Value) string {
	for k.Kind() == reflect.Interface && !k.IsNil() {
		k = k.Elem()
	}
	switch k.Kind() {
	case reflect.Ptr, reflect.Map, reflect.Slice, reflect.Func, reflect.Chan, reflect.UnsafePointer:
		return fmt.Sprintf("@%016x", k.Pointer())
	case reflect.String:
		return "s" + k.String()
	}
	return fmt.Sprintf("v%v", k)
}

// --------------------------------------------------------- region comparator

// normRegions sorts the «I…I» items inside every «R…R» region: the visiting
// order of a for loop over a Go map is the one licensed variation.
func normRegions(s string) string {
	const ro, rc, io_, ic = "«R", "R»", "«I", "I»"
	for {
		i := strings.Index(s, ro)
		if i < 0 {
			return s
		}
		j := strings.Index(s[i:], rc)
		if j < 0 {
			return s
		}
		body := s[i+len(ro) : i+j]
		var items []string
		rest := body
		var other strings.Builder
		for {
			a := strings.Index(rest, io_)
			if a < 0 {
				other.WriteString(rest)
				break
			}
			b := strings.Index(rest[a:], ic)
			if b < 0 {
				other.WriteString(rest)
				break
			}
			other.WriteString(rest[:a])
			items = append(items, rest[a+len(io_):a+b])
			rest = rest[a+b+len(ic):]
		}
		sort.Strings(items)
		s = s[:i] + "{region " + other.String() + "|" + strings.Join(items, "|") + "}" + s[i+j+len(rc):]
	}
}

// ------------------------------------------------------------------ universe

type c13Prog struct {
	p    *Program
	text string // may differ from p.Main for near-copies
}

// c13Memory: results remembered across the cases of one worker process (see c13Run).
type c13Remembered struct {
	p       c13Prog
	variant int
	res     c13Result
	at      int
}

var (
	c13Memory     []c13Remembered
	c13Execs      int
	execsThisCase int
)

type c13Result struct {
	out string
	err string
	log string
}

func (r c13Result) String() string {
	return fmt.Sprintf("out=%q err=%q calls=%s", r.out, r.err, r.log)
}

func logIDs(l []Invocation) string {
	var sb strings.Builder
	for _, i := range l {
		if i.Kind == pkFeeder {
			fmt.Fprintf(&sb, "F(%s) ", i.Name)
		} else {
			fmt.Fprintf(&sb, "%d ", i.ID)
		}
	}
	return sb.String()
}

func result(out string, err error, rt *Runtime) c13Result {
	r := c13Result{out: normRegions(out), log: logIDs(rt.Log)}
	if err != nil {
		r.err = normFault(err.Error())
	}
	return r
}

// chunkReader delivers its text in chunks of drawn sizes (short reads).
type chunkReader struct {
	s     string
	sizes []int
	i     int
}

func (c *chunkReader) Read(p []byte) (int, error) {
	if len(c.s) == 0 {
		return 0, io.EOF
	}
	n := 1
	if len(c.sizes) > 0 {
		n = c.sizes[c.i%len(c.sizes)]
		c.i++
	}
	if n > len(p) {
		n = len(p)
	}
	if n > len(c.s) {
		n = len(c.s)
	}
	copy(p, c.s[:n])
	c.s = c.s[n:]
	return n, nil
}

type liveTmpl struct {
	t    *plush.Template
	prog int
	snap uint64
	how  string
}

func c13Run(t *rapid.T) {
	// ---- universe: a family of programs
	nprog := rapid.IntRange(2, 5).Draw(t, "nprog")
	var progs []c13Prog
	// swarm: some universes are heavy on templates that fail to parse, drawn
	// from a few kinds of syntax error (a failed parse must leave no trace)
	brokenPct := 8
	var brokenKinds []int
	if uni(t, "brokenheavy", 10) == 0 {
		brokenPct = 70
		brokenKinds = rapid.SliceOfN(rapid.IntRange(0, len(brokenTags)-1), 2, 3).Draw(t, "brokenkinds")
	}
	for len(progs) < nprog {
		if len(progs) > 0 && uni(t, "nearcopy", 10) < 4 {
			base := progs[uni(t, "base", len(progs))]
			text := base.text
			switch uni(t, "variation", 9) {
			case 5:
				text = strings.ReplaceAll(text, "\n", "\r\n") // line-ending variant
			case 6:
				if i := strings.Index(text, "hello"); i >= 0 {
					text = text[:i] + "Hello" + text[i+5:] // case variant
				} else {
					text = text + "\t"
				}
			case 7:
				text = "\n " + text + " \n" // differs only in surrounding whitespace
			case 8:
				text = strings.TrimSpace(text)
			case 0:
				text += " "
			case 1:
				text = "x" + text
			case 2:
				if i := strings.Index(text, "hello"); i >= 0 {
					text = text[:i] + "jello" + text[i+5:]
				} else {
					text += "\n"
				}
			case 3:
				if i := strings.LastIndex(text, "hello"); i >= 0 {
					text = text[:i] + "hellp" + text[i+5:]
				} else {
					text = " " + text
				}
			default:
				text = strings.Replace(text, "\n", "\n\n", 1)
			}
			if strings.HasSuffix(text, "\\<") || strings.HasSuffix(text, "\\") {
				text += "." // a template ending in `\<` panics in the lexer (C03's subject): not generated
			}
			dup := false
			for _, q := range progs {
				if q.text == text {
					dup = true
				}
			}
			if !dup {
				count("c13_near_copies", 1)
				progs = append(progs, c13Prog{p: base.p, text: text})
				continue
			}
		}
		p := genProgram(t, genOpts{tolerant: true, toleratedOnly: true, lateLet: true, probes: true, mapRegions: true, pureMapBody: true, sideEffects: true, failing: true, failPct: 20, probePct: 20, maxPieces: 5, brokenPct: brokenPct, brokenKinds: brokenKinds, litModePct: 15})
		progs = append(progs, c13Prog{p: p, text: p.Main})
	}
	// partial names are unique per program because fresh() counters restart:
	// give every program its own feeder namespace through its own Runtime.
	nvar := 1 + uni(t, "nvariants", 3)

	newRT := func(i, j int) *Runtime {
		rt := newRuntime(progs[i].p, true)
		rt.Variant = j
		return rt
	}

	// ---- reference: rendered alone, freshly parsed, canonical order, no cache
	plush.CacheEnabled = false
	plush.VerifResetCache()
	simrt.SetMapOrder(simrt.Canonical, 0)
	ref := make([][]c13Result, nprog)
	for i := range progs {
		ref[i] = make([]c13Result, nvar)
		for j := 0; j < nvar; j++ {
			rt := newRT(i, j)
			tm, err := simNewTemplate(progs[i].text)
			var out string
			if err == nil {
				out, err = safeExec(tm, plush.NewContextWith(rt.contextData()))
			}
			ref[i][j] = result(out, err, rt)
		}
	}

	// ---- the same (template, data) rendered alone must give what it gave the FIRST time this process rendered
	// it, whatever the process did in between: state that lives outside templates and contexts (package-level
	// memo tables, interning, pools, counters) converges after first use, so comparing within one history cannot
	// see it — the reference of this history would already be computed on the converged state. Some results are
	// remembered across cases and re-checked in later cases, after thousands of unrelated renders.
	if len(c13Memory) > 0 && uni(t, "revisit", 3) == 0 {
		for n := 1 + uni(t, "nrevisit", 3); n > 0; n-- {
			m := c13Memory[uni(t, "revisitwhich", len(c13Memory))]
			rt := newRuntime(m.p.p, true)
			rt.Variant = m.variant
			tm, err := simNewTemplate(m.p.text)
			var out string
			if err == nil {
				out, err = safeExec(tm, plush.NewContextWith(rt.contextData()))
			}
			got := result(out, err, rt)
			count("c13_revisits", 1)
			if got != m.res {
				mm := m
				violate(t, "C13", "same-template-same-data-same-result-whenever-rendered", "c13:result-depends-on-process-history", func() map[string]interface{} {
					return map[string]interface{}{"program": mm.p.text, "partials": mm.p.p.Partials, "js": mm.p.p.JS, "data_variant": mm.variant,
						"first_result_in_this_process": mm.res.String(), "result_now": got.String(), "renders_in_between": c13Execs - mm.at,
						"message": "rendered alone (fresh parse, fresh context, cache off, canonical map order) twice in one process, with unrelated renders in between: the results differ; replay needs the whole worker run (the state that changed was left by earlier cases)"}
				})
				return
			}
		}
	}
	for i := range progs {
		if uni(t, "remember", 4) == 0 {
			j := uni(t, "remembervariant", nvar)
			e := c13Remembered{p: progs[i], variant: j, res: ref[i][j], at: c13Execs}
			if len(c13Memory) < 400 {
				c13Memory = append(c13Memory, e)
			} else {
				c13Memory[uni(t, "rememberslot", len(c13Memory))] = e
			}
		}
	}
	defer func() { c13Execs += 1 + execsThisCase }()
	execsThisCase = 0

	sharedHelpers := map[int]map[string]interface{}{}
	sharedRT := map[int]*Runtime{}
	var hist []string
	var live []*liveTmpl
	cacheOn := false
	execs := 0
	progsUsed := map[int]bool{}

	det := func(msg string) func() map[string]interface{} {
		return func() map[string]interface{} {
			var ps []interface{}
			for i, p := range progs {
				ps = append(ps, map[string]interface{}{"program": i, "text": p.text, "partials": p.p.Partials, "js": p.p.JS})
			}
			return map[string]interface{}{"programs": ps, "history": append([]string{}, hist...), "message": msg}
		}
	}

	track := func(tm *plush.Template, prog int, how string) *liveTmpl {
		for _, l := range live {
			if l.t == tm {
				return l
			}
		}
		l := &liveTmpl{t: tm, prog: prog, how: how, snap: snapshot(plush.VerifProgram(tm))}
		live = append(live, l)
		return l
	}

	checkSnapshots := func() {
		for _, l := range live {
			if s := snapshot(plush.VerifProgram(l.t)); s != l.snap {
				violate(t, "C13", "execution-does-not-modify-parsed-program", "c13:tree-mutated", det(fmt.Sprintf("the parsed program of a template for program %d (%s) changed", l.prog, l.how)))
				l.snap = s
			}
		}
		if cacheOn {
			for text, tm := range plush.VerifCachedTemplates() {
				if tm == nil {
					continue
				}
				// how the cache is keyed is an implementation detail: what it
				// serves is checked through the API (Parse(text).Input == text,
				// results equal to the reference); entries are only snapshotted
				_ = text
				track(tm, -1, "cache entry")
			}
		}
	}

	compare := func(i, j int, how string, out string, err error, rt *Runtime) {
		execs++
		execsThisCase++
		progsUsed[i] = true
		count("c13_executions", 1)
		got := result(out, err, rt)
		want := ref[i][j]
		if got.err != "" {
			count("c13_failing_executions", 1)
		}
		if got.out != want.out || got.err != want.err {
			violate(t, "C13", "same-template-same-data-same-result", "c13:result-differs:"+howClass(how), det(fmt.Sprintf("%s of program %d with data variant %d gave\n  %s\nrendered alone it gives\n  %s", how, i, j, got, want)))
		}
		if got.log != want.log {
			violate(t, "C13", "same-template-same-data-same-helper-calls", "c13:call-order-differs:"+howClass(how), det(fmt.Sprintf("%s of program %d with data variant %d called helpers in order\n  %s\nrendered alone:\n  %s", how, i, j, got.log, want.log)))
		}
	}

	// templates registered with CacheSet under a NAME (not their text): while the cache is on, rendering the name
	// renders the registered template; nothing but an explicit reset un-registers it
	aliases := map[string]int{}
	crowd := func(n int, tag string) {
		was := plush.CacheEnabled
		plush.CacheEnabled = true
		for x := 0; x < n; x++ {
			txt := fmt.Sprintf("%s %d <%%= %d %%>", tag, x, x)
			if out, err := safeRender(txt, plush.NewContext()); err != nil || out != fmt.Sprintf("%s %d %d", tag, x, x) {
				violate(t, "C13", "same-template-same-data-same-result", "c13:result-differs:filler", det(fmt.Sprintf("filler template %q rendered %q, %v", txt, out, err)))
			}
		}
		plush.CacheEnabled = was
	}
	nops := rapid.IntRange(3, 40).Draw(t, "nops")
	for op := 0; op < nops; op++ {
		i := uni(t, "prog", nprog)
		j := uni(t, "variant", nvar)
		kind := uni(t, "op", 18)
		switch kind {
		case 0:
			cacheOn = !cacheOn
			plush.CacheEnabled = cacheOn
			hist = append(hist, fmt.Sprintf("CacheEnabled = %v", cacheOn))
			count("c13_op_setcache", 1)
		case 1:
			if uni(t, "crowd", 3) == 0 {
				// crowd the cache with many other templates (bounded caches, eviction)
				n := []int{10, 20, 70, 300, 1100}[uni(t, "crowdn", 5)]
				was := plush.CacheEnabled
				plush.CacheEnabled = true
				for x := 0; x < n; x++ {
					txt := fmt.Sprintf("filler %d <%%= %d %%>", x, x)
					if out, err := safeRender(txt, plush.NewContext()); err != nil || out != fmt.Sprintf("filler %d %d", x, x) {
						violate(t, "C13", "same-template-same-data-same-result", "c13:result-differs:filler", det(fmt.Sprintf("filler template %q rendered %q, %v", txt, out, err)))
					}
				}
				plush.CacheEnabled = was
				hist = append(hist, fmt.Sprintf("render %d distinct filler templates with the cache on", n))
				count("c13_op_crowd_cache", 1)
				break
			}
			plush.VerifResetCache()
			aliases = map[string]int{}
			hist = append(hist, "reset cache (cold)")
			count("c13_op_resetcache", 1)
		case 2:
			mp := simrt.MapPolicy(uni(t, "maporder", 4))
			seed := rapid.Uint64().Draw(t, "mapseed")
			simrt.SetMapOrder(mp, seed)
			count("maporder_"+mp.String(), 1)
			hist = append(hist, "map order "+mp.String())
		case 3, 4, 5:
			rt := newRT(i, j)
			hist = append(hist, fmt.Sprintf("Render(prog %d, data %d) [cache %v]", i, j, cacheOn))
			out, err := safeRender(progs[i].text, plush.NewContextWith(rt.contextData()))
			compare(i, j, "Render", out, err, rt)
			count("c13_op_render", 1)
			if cacheOn {
				count("c13_render_cache_on", 1)
			}
		case 6, 7:
			hist = append(hist, fmt.Sprintf("Parse(prog %d) [cache %v], then Exec xN", i, cacheOn))
			tm, err := simParse(progs[i].text)
			count("c13_op_parse", 1)
			if err != nil {
				rt := newRT(i, j)
				compare(i, j, "Parse", "", err, rt)
				break
			}
			if tm.Input != progs[i].text {
				violate(t, "C13", "parse-returns-the-template-of-its-text", "c13:parse-wrong-template", det(fmt.Sprintf("Parse(text of program %d) returned a template whose Input is %q", i, tm.Input)))
			}
			track(tm, i, "Parse")
			n := rapid.IntRange(1, 3).Draw(t, "nexec")
			if hotP := 12; uni(t, "hot", hotP) == 0 || (progs[i].p.Features["mostly_literal_program"]+progs[i].p.Features["text_only_program"] > 0 && uni(t, "hotlit", 2) == 0) {
				n = []int{5, 12, 110}[uni(t, "hotn", 3)] // a "hot" template
				count("c13_hot_templates", 1)
			}
			for x := 0; x < n; x++ {
				jj := (j + x) % nvar // a hot template sees different data from execution to execution
				rt := newRT(i, jj)
				out, err := safeExec(tm, plush.NewContextWith(rt.contextData()))
				compare(i, jj, "Parse+Exec", out, err, rt)
			}
		case 8:
			hist = append(hist, fmt.Sprintf("NewTemplate(prog %d).Exec(data %d)", i, j))
			rt := newRT(i, j)
			tm, err := simNewTemplate(progs[i].text)
			var out string
			if err == nil {
				track(tm, i, "NewTemplate")
				out, err = safeExec(tm, plush.NewContextWith(rt.contextData()))
			} else if tm != nil && uni(t, "usefailed", 2) == 0 {
				// NewTemplate hands back its Template together with the error; executing that value (again and
				// again) must keep giving the error of its text
				hist = append(hist, "... the Template returned together with the error executed twice")
				for x := 0; x < 2; x++ {
					rt2 := newRT(i, j)
					out2, err2 := safeExec(tm, plush.NewContextWith(rt2.contextData()))
					compare(i, j, "Exec of the Template NewTemplate returned with an error", out2, err2, rt2)
				}
			}
			compare(i, j, "NewTemplate+Exec", out, err, rt)
			count("c13_op_newtemplate", 1)
			if uni(t, "reusedata", 3) == 0 {
				// a caller that keeps its nested data objects (maps, slices) and passes the same ones to every render;
				// the generated programs assign nothing into context data, so every render must equal the reference
				hist = append(hist, fmt.Sprintf("prog %d executed 3 times, each with a fresh context over the SAME nested data objects, data %d", i, j))
				reuse := map[string]interface{}{}
				for x := 0; x < 3; x++ {
					rt2 := newRT(i, j)
					rt2.Reuse = reuse
					var out2 string
					tm2, err2 := simNewTemplate(progs[i].text)
					if err2 == nil {
						out2, err2 = safeExec(tm2, plush.NewContextWith(rt2.contextData()))
					}
					compare(i, j, "Exec with the caller's nested data objects re-used", out2, err2, rt2)
				}
				count("c13_op_reused_nested_data", 1)
			}
			if cacheOn && uni(t, "editinput", 8) == 0 {
				// somebody writes another text into the exported Input field of the template Parse handed out (which is
				// the cache's own entry), executes it, and puts the text back: the cache entry of the original text
				// must keep rendering the original text
				if tm2, err2 := simParse(progs[i].text); err2 == nil && tm2 != nil {
					o := (i + 1) % nprog
					hist = append(hist, fmt.Sprintf("Parse(prog %d).Input = text of prog %d; Exec; Input restored", i, o))
					keep := tm2.Input
					tm2.Input = progs[o].text
					rt2 := newRT(o, j)
					_, _ = safeExec(tm2, plush.NewContextWith(rt2.contextData()))
					tm2.Input = keep
					rt3 := newRT(i, j)
					out3, err3 := safeRender(progs[i].text, plush.NewContextWith(rt3.contextData()))
					compare(i, j, "Render after the cached Template's Input was edited, executed and restored", out3, err3, rt3)
					count("c13_op_edit_input", 1)
				}
			}
			if uni(t, "runscript", 12) == 0 {
				// a script run in between (RunScript binds print/println for the script alone)
				hist = append(hist, "RunScript(\"let rs = 1\") with a fresh context")
				func() {
					defer func() { _ = recover() }()
					_ = underSim(func() { _ = plush.RunScript("let rs = 1 + 1", plush.NewContext()) })
				}()
				count("c13_op_runscript", 1)
			}
			if uni(t, "zerovalue", 4) == 0 {
				// a Template value built by hand (Input is an exported field) parses itself on first use
				hist = append(hist, fmt.Sprintf("&Template{Input: prog %d} executed 3 times, data %d", i, j))
				zt := &plush.Template{Input: progs[i].text}
				for x := 0; x < 3; x++ {
					rt2 := newRT(i, j)
					out2, err2 := safeExec(zt, plush.NewContextWith(rt2.contextData()))
					compare(i, j, "Exec of a hand-built Template value", out2, err2, rt2)
				}
				count("c13_op_hand_built_template", 1)
			}
		case 9, 10:
			var cands []*liveTmpl
			for _, l := range live {
				if l.prog >= 0 {
					cands = append(cands, l)
				}
			}
			if len(cands) == 0 {
				break
			}
			l := cands[uni(t, "live", len(cands))]
			rt := newRT(l.prog, j)
			if kind == 9 {
				hist = append(hist, fmt.Sprintf("re-Exec kept template of prog %d (%s) with data %d", l.prog, l.how, j))
				out, err := safeExec(l.t, plush.NewContextWith(rt.contextData()))
				compare(l.prog, j, "re-Exec", out, err, rt)
				count("c13_op_reexec", 1)
			} else {
				hist = append(hist, fmt.Sprintf("Clone(kept template of prog %d, %s).Exec(data %d)", l.prog, l.how, j))
				c := l.t.Clone()
				if plush.VerifProgram(c) != plush.VerifProgram(l.t) {
					count("c13_clone_copies_program", 1)
				}
				track(c, l.prog, "Clone")
				out, err := safeExec(c, plush.NewContextWith(rt.contextData()))
				compare(l.prog, j, "Clone+Exec", out, err, rt)
				count("c13_op_clone", 1)
			}
		case 11:
			hist = append(hist, fmt.Sprintf("BuffaloRenderer(prog %d, data %d) [cache %v]", i, j, cacheOn))
			if uni(t, "longlivedhelpers", 2) == 0 {
				// the way buffalo calls it: ONE helpers map for the life of the application, fresh data per request
				// (one map per program AND data variant: a variant is a caller, and callers differ in the helpers they
				// override)
				hk := i*8 + j
				if sharedHelpers[hk] == nil {
					sharedRT[hk] = newRT(i, j)
					sharedHelpers[hk] = sharedRT[hk].helperData()
				}
				rt := sharedRT[hk]
				rt.Log = nil
				hist[len(hist)-1] += " with the long-lived helpers map of this caller"
				out, err := safeBuffalo(progs[i].text, rt.plainData(), sharedHelpers[hk])
				compare(i, j, "BuffaloRenderer", out, err, rt)
				count("c13_op_buffalo_long_lived_helpers", 1)
				break
			}
			rt := newRT(i, j)
			out, err := safeBuffalo(progs[i].text, rt.plainData(), rt.helperData())
			compare(i, j, "BuffaloRenderer", out, err, rt)
			count("c13_op_buffalo", 1)
		case 12:
			var sizes []int
			switch uni(t, "chunking", 3) {
			case 0:
				sizes = []int{1}
			case 1:
				sizes = rapid.SliceOfN(rapid.IntRange(1, 64), 1, 6).Draw(t, "chunks")
			default:
				sizes = []int{1 << 20}
			}
			hist = append(hist, fmt.Sprintf("RenderR(prog %d, data %d, chunks %v) [cache %v]", i, j, sizes, cacheOn))
			rt := newRT(i, j)
			out, err := safeRenderR(&chunkReader{s: progs[i].text, sizes: sizes}, plush.NewContextWith(rt.contextData()))
			compare(i, j, "RenderR", out, err, rt)
			count("c13_op_renderr", 1)
		case 13:
			hist = append(hist, fmt.Sprintf("CacheSet(text of prog %d, NewTemplate(text of prog %d))", i, i))
			if tm, err := simNewTemplate(progs[i].text); err == nil {
				track(tm, i, "CacheSet")
				plush.CacheSet(progs[i].text, tm)
			}
			count("c13_op_cacheset", 1)
		case 14:
			// page then layout with ONE context (buffalo's flow): the layout pulls
			// in the contentFor blocks the page registered
			hist = append(hist, fmt.Sprintf("Exec(prog %d) then Exec(layout) with the same context, data %d", i, j))
			run := func() (string, error, *Runtime) {
				rt := newRT(i, j)
				ctx := plush.NewContextWith(rt.contextData())
				tm, err := simNewTemplate(progs[i].text)
				if err != nil {
					return "", err, rt
				}
				out, err := safeExec(tm, ctx)
				if err != nil {
					return "", err, rt
				}
				lt, err := simNewTemplate(layoutText)
				if err != nil {
					return "", err, rt
				}
				lout, err := safeExec(lt, ctx)
				return out + "¦" + lout, err, rt
			}
			// no precomputed reference for this shape: run it twice, under the
			// canonical order first, then under the history's current order
			savedP := simrt.MapOrder()
			simrt.SetMapOrder(simrt.Canonical, 0)
			o1, e1, r1 := run()
			simrt.SetMapOrder(savedP, uint64(op)+1)
			o2, e2, r2 := run()
			a, b := result(o1, e1, r1), result(o2, e2, r2)
			execs++
			execsThisCase++
			execsThisCase++
			count("c13_executions", 2)
			count("c13_op_page_layout", 1)
			if a != b {
				violate(t, "C13", "same-template-same-data-same-result", "c13:result-differs:page+layout", det(fmt.Sprintf("page+layout of program %d with data variant %d gave\n  %s\nand then\n  %s", i, j, a, b)))
			}
		case 16:
			name := fmt.Sprintf("pages/prog%d.plush.html", i)
			if _, ok := aliases[name]; !ok || uni(t, "reregister", 4) == 0 {
				tm, err := simNewTemplate(progs[i].text)
				if err != nil {
					break
				}
				plush.CacheSet(name, tm)
				track(tm, i, "CacheSet")
				aliases[name] = i
				hist = append(hist, fmt.Sprintf("CacheSet(%q, NewTemplate(prog %d))", name, i))
				count("c13_op_cacheset_alias", 1)
				if uni(t, "aliascrowd", 5) == 0 {
					n := []int{40, 1100, 2300}[uni(t, "aliascrowdn", 3)]
					crowd(n, "other")
					hist = append(hist, fmt.Sprintf("render %d other distinct templates with the cache on", n))
					count("c13_op_crowd_cache", 1)
				}
			}
			// every registered name, not only the newest
			names := make([]string, 0, len(aliases))
			for n := range aliases {
				names = append(names, n)
			}
			sort.Strings(names)
			name = names[uni(t, "alias", len(names))]
			ai := aliases[name]
			rt := newRT(ai, j)
			hist = append(hist, fmt.Sprintf("Render(%q, data %d) [cache %v]", name, j, cacheOn))
			out, err := safeRender(name, plush.NewContextWith(rt.contextData()))
			if cacheOn {
				compare(ai, j, "Render(registered name)", out, err, rt)
				count("c13_op_render_alias_cache_on", 1)
			} else if err != nil || out != name {
				// with the cache off the name is just a text
				violate(t, "C13", "same-template-same-data-same-result", "c13:result-differs:alias-cache-off", det(fmt.Sprintf("Render(%q) with the cache off gave %q, %v; the text itself was expected", name, out, err)))
			} else {
				count("c13_op_render_alias_cache_off", 1)
			}
		case 15:
			// the same context object used for two executions in a row (what the first
			// leaves behind is data of the second): the PAIR must be reproducible
			hist = append(hist, fmt.Sprintf("Exec(prog %d) twice with ONE context, data %d", i, j))
			run := func() (string, error, *Runtime) {
				rt := newRT(i, j)
				ctx := plush.NewContextWith(rt.contextData())
				tm, err := simNewTemplate(progs[i].text)
				if err != nil {
					return "", err, rt
				}
				o1, err := safeExec(tm, ctx)
				if err != nil {
					return "", err, rt
				}
				o2, err := safeExec(tm, ctx)
				return o1 + "¦" + o2, err, rt
			}
			savedP := simrt.MapOrder()
			simrt.SetMapOrder(simrt.Canonical, 0)
			o1, e1, r1 := run()
			simrt.SetMapOrder(savedP, uint64(op)+1)
			o2, e2, r2 := run()
			a, b := result(o1, e1, r1), result(o2, e2, r2)
			execs++
			execsThisCase++
			execsThisCase++
			count("c13_executions", 2)
			count("c13_op_same_context_twice", 1)
			if a != b {
				violate(t, "C13", "same-template-same-data-same-result", "c13:result-differs:same-context-twice", det(fmt.Sprintf("two executions of program %d with one context (data variant %d) gave\n  %s\nand, repeated from scratch,\n  %s", i, j, a, b)))
			}
		default:
			// an execution that fails half-way (injected fault) leaves no trace
			rt := newRT(i, j)
			rt.FailAt = rapid.IntRange(1, 12).Draw(t, "failat")
			rt.Kind = fkErr
			hist = append(hist, fmt.Sprintf("Render(prog %d, data %d) with probe invocation %d failing [cache %v]", i, j, rt.FailAt, cacheOn))
			_, _ = safeRender(progs[i].text, plush.NewContextWith(rt.contextData()))
			if rt.Fired {
				count("fault_fired_err", 1)
			}
			count("c13_op_faulted_render", 1)
		}
		checkSnapshots()
	}
	plush.CacheEnabled = false
	plush.VerifResetCache()
	simrt.SetMapOrder(simrt.Canonical, 0)

	count("c13_histories", 1)
	count("c13_ops", int64(len(hist)))
	count("c13_live_templates", int64(len(live)))
	for _, p := range progs {
		for f, n := range p.p.Features {
			count("feat_"+f, int64(n))
		}
	}
	if execs >= 3 && len(progsUsed) >= 2 {
		var parts []string
		for _, p := range progs {
			parts = append(parts, p.text)
		}
		seen("c13", hashStr(append(parts, hist...)...))
	}
	sample(2, func() interface{} { d := det("ok")(); return d })
}

func howClass(how string) string { return strings.ReplaceAll(how, " ", "-") }

type panicErr struct{ v interface{} }

func (p *panicErr) Error() string { return fmt.Sprintf("PANIC: %v", p.v) }

func safeExec(tm *plush.Template, ctx *plush.Context) (out string, err error) {
	defer func() {
		if r := recover(); r != nil {
			if simrt.IsAbort(r) {
				panic(r)
			}
			out, err = "", &panicErr{r}
		}
	}()
	if herr := underSim(func() { out, err = tm.Exec(ctx) }); herr != nil {
		return "", herr
	}
	return out, err
}

func safeRender(text string, ctx *plush.Context) (out string, err error) {
	defer func() {
		if r := recover(); r != nil {
			if simrt.IsAbort(r) {
				panic(r)
			}
			out, err = "", &panicErr{r}
		}
	}()
	if herr := underSim(func() { out, err = plush.Render(text, ctx) }); herr != nil {
		return "", herr
	}
	return out, err
}

func safeRenderR(r io.Reader, ctx *plush.Context) (out string, err error) {
	defer func() {
		if r := recover(); r != nil {
			if simrt.IsAbort(r) {
				panic(r)
			}
			out, err = "", &panicErr{r}
		}
	}()
	if herr := underSim(func() { out, err = plush.RenderR(r, ctx) }); herr != nil {
		return "", herr
	}
	return out, err
}

func safeBuffalo(text string, data, helpers map[string]interface{}) (out string, err error) {
	defer func() {
		if r := recover(); r != nil {
			if simrt.IsAbort(r) {
				panic(r)
			}
			out, err = "", &panicErr{r}
		}
	}()
	if herr := underSim(func() { out, err = plush.BuffaloRenderer(text, data, helpers) }); herr != nil {
		return "", herr
	}
	return out, err
}

// A parser panic (totality of parsing is C03's subject) is a result like any other here: the same text must then
// panic the same way every time.
func recoverParse(tm **plush.Template, err *error) {
	if r := recover(); r != nil {
		if simrt.IsAbort(r) {
			panic(r)
		}
		count("c13_parse_panics", 1)
		*tm, *err = nil, &panicErr{r}
	}
}

func simNewTemplate(text string) (tm *plush.Template, err error) {
	defer recoverParse(&tm, &err)
	if herr := underSim(func() { tm, err = plush.NewTemplate(text) }); herr != nil {
		return nil, herr
	}
	return tm, err
}

func simParse(text string) (tm *plush.Template, err error) {
	defer recoverParse(&tm, &err)
	if herr := underSim(func() { tm, err = plush.Parse(text) }); herr != nil {
		return nil, herr
	}
	return tm, err
}

// guardedNewTemplate / guardedParse: the plain calls, with a parser panic turned into an error value (C03's
// subject, not C13's or C14's: the same text must simply do the same everywhere). Usable inside tasks.
func guardedNewTemplate(text string) (tm *plush.Template, err error) {
	defer recoverParse(&tm, &err)
	return plush.NewTemplate(text)
}

func guardedParse(text string) (tm *plush.Template, err error) {
	defer recoverParse(&tm, &err)
	return plush.Parse(text)
}

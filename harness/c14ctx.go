package harness

import (
	"fmt"
	"reflect"
	"sort"
	"strings"
	"time"

	"github.com/anishathalye/porcupine"
	plush "github.com/gobuffalo/plush/v5"
	"github.com/gobuffalo/plush/v5/simrt"
	"pgregory.net/rapid"
)

// C14 scenario S4 — concurrent Set/Value/Has/New on ONE context
// (DESIGN.md §5.4). Oracles: race detector, deadlock/step budget, per-key
// linearizability against a read/write register (porcupine).

type ctxOpKind int

const (
	opSet ctxOpKind = iota
	opValue
	opHas
	opNewRead  // child := shared.New(); child.Value(k)   (one read of the shared scope)
	opNewWrite // child := shared.New(); child.Set(k, v)  (must stay private)
)

type ctxOp struct {
	Kind ctxOpKind
	Key  string
	Val  int
}

func (o ctxOp) String() string {
	switch o.Kind {
	case opSet:
		return fmt.Sprintf("Set(%s,%d)", o.Key, o.Val)
	case opValue:
		return fmt.Sprintf("Value(%s)", o.Key)
	case opHas:
		return fmt.Sprintf("Has(%s)", o.Key)
	case opNewRead:
		return fmt.Sprintf("New().Value(%s)", o.Key)
	case opNewWrite:
		return fmt.Sprintf("New().Set(%s,%d)", o.Key, o.Val)
	}
	return "?"
}

type ctxEvent struct {
	Task      int
	Op        ctxOp
	Call, Ret uint64
	OutVal    int
	OutHas    bool
	Bad       string // output of a type the workload never wrote
}

type regIn struct {
	write bool
	has   bool
	val   int
}
type regOut struct {
	val int
	has bool
}

var regModel = porcupine.Model{
	Init: func() interface{} { return 0 },
	Step: func(state, input, output interface{}) (bool, interface{}) {
		st := state.(int)
		in := input.(regIn)
		out := output.(regOut)
		if in.write {
			return true, in.val
		}
		if in.has {
			return out.has == (st != 0), st
		}
		return out.val == st, st
	},
	Equal: func(a, b interface{}) bool { return a.(int) == b.(int) },
	DescribeOperation: func(input, output interface{}) string {
		in := input.(regIn)
		out := output.(regOut)
		if in.write {
			return fmt.Sprintf("write(%d)", in.val)
		}
		if in.has {
			return fmt.Sprintf("has->%v", out.has)
		}
		return fmt.Sprintf("read->%d", out.val)
	},
}

const builtinID = 777

func asInt(v interface{}) (int, string) {
	switch x := v.(type) {
	case nil:
		return 0, ""
	case int:
		return x, ""
	}
	if rv := reflect.ValueOf(v); rv.Kind() == reflect.Func {
		if want := reflect.ValueOf(plush.Helpers.All()["len"]); want.IsValid() && rv.Pointer() == want.Pointer() {
			return builtinID, "" // the built-in len helper, injected at construction
		}
	}
	return -1, fmt.Sprintf("%T(%v)", v, v)
}

func c14CtxRun(t *rapid.T) {
	maxTasks := 8
	if thorough {
		maxTasks = 32
	}
	ntasks := rapid.IntRange(2, maxTasks).Draw(t, "tasks")
	if ntasks > 8 {
		// big task counts are rare even in the thorough tier
		if rapid.IntRange(0, 3).Draw(t, "big") != 0 {
			ntasks = 2 + ntasks%7
		}
	}
	keys := [][]string{{"a"}, {"a", "b"}, {"a", "b", "c"}, {"len"}, {"a", "len"}}[uni(t, "keyset", 5)]
	maxOps := 12
	budget := 48
	if ntasks > 8 {
		budget = 96
	}
	mp := drawMapOrder(t)

	// shared context: root, or child of a root that already binds some keys
	twoLevel := rapid.Bool().Draw(t, "twolevel")
	init := map[string]int{}
	rootData := map[string]interface{}{}
	for _, k := range keys {
		if k == "len" {
			init[k] = builtinID // every root context gets the built-in at construction
			continue
		}
		if rapid.Bool().Draw(t, "init_"+k) {
			init[k] = 900 + len(init)
			rootData[k] = init[k]
		}
	}
	var shared *plush.Context
	if twoLevel {
		root := plush.NewContextWith(rootData)
		shared = root.New().(*plush.Context)
	} else {
		shared = plush.NewContextWith(rootData)
	}

	plan := make([][]ctxOp, ntasks)
	total := 0
	for i := range plan {
		n := rapid.IntRange(1, maxOps).Draw(t, "nops")
		for j := 0; j < n && total < budget; j++ {
			total++
			o := ctxOp{Key: keys[uni(t, "key", len(keys))]}
			switch uni(t, "kind", 10) {
			case 0, 1, 2, 3:
				o.Kind, o.Val = opSet, (i+1)*1000+j+1
			case 4, 5, 6:
				o.Kind = opValue
			case 7:
				o.Kind = opHas
			case 8:
				o.Kind = opNewRead
			default:
				o.Kind, o.Val = opNewWrite, -((i+1)*1000 + j + 1)
			}
			plan[i] = append(plan[i], o)
		}
	}

	opts := drawSched(t, total*4+ntasks)
	opts.KeepTrace = true
	sim := simrt.NewSim(rapidChooser{t}, opts)
	events := make([][]ctxEvent, ntasks)
	simrt.ResetTick()
	for i := range plan {
		i := i
		sim.Go(fmt.Sprintf("T%d", i), func() {
			for _, o := range plan[i] {
				ev := ctxEvent{Task: i, Op: o}
				switch o.Kind {
				case opSet:
					ev.Call = simrt.Tick()
					shared.Set(o.Key, o.Val)
					ev.Ret = simrt.Tick()
				case opValue:
					ev.Call = simrt.Tick()
					v := shared.Value(o.Key)
					ev.Ret = simrt.Tick()
					ev.OutVal, ev.Bad = asInt(v)
				case opHas:
					ev.Call = simrt.Tick()
					ev.OutHas = shared.Has(o.Key)
					ev.Ret = simrt.Tick()
				case opNewRead:
					ch := shared.New()
					ev.Call = simrt.Tick()
					v := ch.Value(o.Key)
					ev.Ret = simrt.Tick()
					ev.OutVal, ev.Bad = asInt(v)
				case opNewWrite:
					ch := shared.New()
					ch.Set(o.Key, o.Val)
					ev.Call = simrt.Tick()
					v := ch.Value(o.Key)
					ev.Ret = simrt.Tick()
					if v != o.Val {
						ev.Bad = fmt.Sprintf("child read back %v after its own Set(%d)", v, o.Val)
					}
				}
				events[i] = append(events[i], ev)
			}
		})
	}

	mark := raceBegin()
	err := sim.Run()
	races, raceText := raceEnd(mark)

	details := func(msg string) func() map[string]interface{} {
		return func() map[string]interface{} {
			var ps []string
			for i, p := range plan {
				var s []string
				for _, o := range p {
					s = append(s, o.String())
				}
				ps = append(ps, fmt.Sprintf("T%d: %s", i, strings.Join(s, "; ")))
			}
			var sched []string
			for _, st := range sim.Trace {
				sched = append(sched, fmt.Sprintf("T%d@%s", st.Task, st.Site))
			}
			var hist []string
			for _, evs := range events {
				for _, e := range evs {
					hist = append(hist, fmt.Sprintf("[%d,%d] T%d %s -> val=%d has=%v %s", e.Call, e.Ret, e.Task, e.Op, e.OutVal, e.OutHas, e.Bad))
				}
			}
			return map[string]interface{}{
				"scenario": "S4 one shared context", "two_level": twoLevel, "initial": fmt.Sprint(init), "plan": ps,
				"policy": opts.Policy.String(), "map_order": mp.String(), "schedule": sched, "history": hist,
				"message": msg, "race_report": raceText, "race_pairs": racePairs(raceText),
			}
		}
	}

	count("c14_s4_runs", 1)
	count("sched_steps", int64(sim.Steps))
	count("sched_switches", int64(sim.Switches))
	count("sched_contentions", int64(sim.Contentions))
	count("sched_spawned_goroutines", int64(sim.Spawned))
	count("sched_leaked_goroutines", int64(sim.Leaked))
	count("sched_stray_goroutine_calls", int64(simrt.TakeStrayCalls()))
	count("policy_"+opts.Policy.String(), 1)
	countMax("max_tasks", int64(ntasks))
	if sim.Switches > 0 {
		seen("c14", sim.Sig)
	}

	if err != nil {
		switch err.(type) {
		case *simrt.Deadlock:
			violate(t, "C14", "no-deadlock", "deadlock:s4", details(err.Error()))
		case *simrt.Inconclusive:
			// the code under test waits on real timers, which the simulator does not own
			count("c14_timer_wait_inconclusive", 1)
		case *simrt.StepLimit:
			// a long but finite run cannot be told from a livelock by a step count:
			// inconclusive, counted, never a violation (blocking is covered by deadlock detection)
			count("c14_step_limit_inconclusive", 1)
		default:
			violate(t, "C14", "no-panic", "panic:s4", details(err.Error()))
		}
		return
	}
	if races > 0 {
		sig := "race:" + strings.Join(racePairs(raceText), " ; ")
		violate(t, "C14", "race-free", sig, details(fmt.Sprintf("%d data race report(s) from the Go race detector", races)))
		return
	}

	// private child writes must not leak into the shared scope; outputs must
	// be values the workload wrote
	var ops []porcupine.Operation
	var maxRet uint64
	for _, evs := range events {
		for _, e := range evs {
			if e.Bad != "" {
				violate(t, "C14", "reads-return-written-values", "badvalue:s4", details(e.Bad))
				return
			}
			if e.Ret > maxRet {
				maxRet = e.Ret
			}
			switch e.Op.Kind {
			case opSet:
				ops = append(ops, porcupine.Operation{ClientId: e.Task, Input: keyed{e.Op.Key, regIn{write: true, val: e.Op.Val}}, Call: int64(e.Call), Output: regOut{}, Return: int64(e.Ret)})
			case opValue, opNewRead:
				ops = append(ops, porcupine.Operation{ClientId: e.Task, Input: keyed{e.Op.Key, regIn{}}, Call: int64(e.Call), Output: regOut{val: e.OutVal}, Return: int64(e.Ret)})
			case opHas:
				ops = append(ops, porcupine.Operation{ClientId: e.Task, Input: keyed{e.Op.Key, regIn{has: true}}, Call: int64(e.Call), Output: regOut{has: e.OutHas}, Return: int64(e.Ret)})
			}
		}
	}
	// initial values: a write that completed before everything else; final
	// state: a read by the controller after everything else
	nclient := ntasks
	for _, k := range keys {
		ops = append(ops, porcupine.Operation{ClientId: nclient, Input: keyed{k, regIn{write: true, val: init[k]}}, Call: -2, Output: regOut{}, Return: -1})
		v, bad := asInt(shared.Value(k))
		if bad != "" {
			violate(t, "C14", "final-state-is-a-written-value", "badfinal:s4", details("final Value("+k+") = "+bad))
			return
		}
		ops = append(ops, porcupine.Operation{ClientId: nclient, Input: keyed{k, regIn{}}, Call: int64(maxRet) + 1, Output: regOut{val: v}, Return: int64(maxRet) + 2})
	}
	model := regModel
	model.Partition = func(history []porcupine.Operation) [][]porcupine.Operation {
		m := map[string][]porcupine.Operation{}
		for _, o := range history {
			k := o.Input.(keyed)
			o.Input = k.in
			m[k.key] = append(m[k.key], o)
		}
		var ks []string
		for k := range m {
			ks = append(ks, k)
		}
		sort.Strings(ks)
		var out [][]porcupine.Operation
		for _, k := range ks {
			out = append(out, m[k])
		}
		return out
	}
	res := porcupine.CheckOperationsTimeout(model, ops, 10*time.Second)
	count("c14_s4_history_ops", int64(len(ops)))
	switch res {
	case porcupine.Illegal:
		violate(t, "C14", "context-ops-linearizable-per-key", "linearizability:s4", details("history of Set/Value/Has on one context is not linearizable per key against a read/write register"))
	case porcupine.Unknown:
		count("c14_s4_linearizability_unknown", 1)
	default:
		count("c14_s4_linearizable", 1)
	}
	sample(3, func() interface{} { d := details("ok")(); delete(d, "race_report"); delete(d, "race_pairs"); return d })
}

type keyed struct {
	key string
	in  regIn
}

// c14ChainRun — scenario S5: a chain root → mid → leaf shared by all tasks,
// with Set/Value/Has/New on any level. A value read through the chain is
// legitimately a multi-step lookup, so no linearizability is demanded here;
// the oracles are the race detector, deadlock / step budget (lock-order
// inversions between levels), and two sanity conditions that hold for every
// interleaving: every value read was written to that key somewhere on the
// reader's chain (or is the initial one), and after all tasks finished each
// level's own binding is the initial one or one written to that level.
func c14ChainRun(t *rapid.T) {
	ntasks := 2 + uni(t, "tasks", 5)
	keys := [][]string{{"a"}, {"a", "b"}, {"len"}, {"a", "len"}}[uni(t, "keyset", 4)]
	mp := drawMapOrder(t)
	root := plush.NewContext()
	mid := root.New().(*plush.Context)
	leaf := mid.New().(*plush.Context)
	levels := []*plush.Context{root, mid, leaf}
	names := []string{"root", "mid", "leaf"}

	type op struct {
		level, kind int // kind 0 Set 1 Value 2 Has 3 New+Value
		key         string
		val         int
	}
	plan := make([][]op, ntasks)
	written := map[string]map[int]map[int]bool{} // key -> level -> values written there
	for _, k := range keys {
		written[k] = map[int]map[int]bool{0: {}, 1: {}, 2: {}}
	}
	total := 0
	for i := range plan {
		n := 1 + uni(t, "nops", 10)
		for j := 0; j < n && total < 60; j++ {
			total++
			o := op{level: uni(t, "level", 3), key: keys[uni(t, "key", len(keys))]}
			switch uni(t, "kind", 8) {
			case 0, 1, 2:
				o.kind, o.val = 0, (i+1)*1000+j+1
				written[o.key][o.level][o.val] = true
			case 3, 4:
				o.kind = 1
			case 5:
				o.kind = 2
			default:
				o.kind = 3
			}
			plan[i] = append(plan[i], o)
		}
	}
	opts := drawSched(t, total*6+ntasks)
	opts.KeepTrace = true
	sim := simrt.NewSim(rapidChooser{t}, opts)
	type obs struct {
		o   op
		val int
		has bool
		bad string
	}
	seenVals := make([][]obs, ntasks)
	for i := range plan {
		i := i
		sim.Go(fmt.Sprintf("T%d", i), func() {
			for _, o := range plan[i] {
				c := levels[o.level]
				r := obs{o: o}
				switch o.kind {
				case 0:
					c.Set(o.key, o.val)
				case 1:
					r.val, r.bad = asInt(c.Value(o.key))
				case 2:
					r.has = c.Has(o.key)
				default:
					r.val, r.bad = asInt(c.New().Value(o.key))
				}
				seenVals[i] = append(seenVals[i], r)
			}
		})
	}
	mark := raceBegin()
	err := sim.Run()
	races, raceText := raceEnd(mark)
	details := func(msg string) func() map[string]interface{} {
		return func() map[string]interface{} {
			var ps []string
			for i, p := range plan {
				var s []string
				for _, o := range p {
					s = append(s, fmt.Sprintf("%s.%s(%s,%d)", names[o.level], [...]string{"Set", "Value", "Has", "New().Value"}[o.kind], o.key, o.val))
				}
				ps = append(ps, fmt.Sprintf("T%d: %s", i, strings.Join(s, "; ")))
			}
			var sched []string
			for _, st := range sim.Trace {
				sched = append(sched, fmt.Sprintf("T%d@%s", st.Task, st.Site))
			}
			return map[string]interface{}{"scenario": "S5 shared chain root-mid-leaf", "plan": ps, "policy": opts.Policy.String(),
				"map_order": mp.String(), "schedule": sched, "message": msg, "race_report": raceText, "race_pairs": racePairs(raceText)}
		}
	}
	count("c14_s5_runs", 1)
	count("sched_steps", int64(sim.Steps))
	count("sched_switches", int64(sim.Switches))
	count("sched_contentions", int64(sim.Contentions))
	count("sched_spawned_goroutines", int64(sim.Spawned))
	count("sched_leaked_goroutines", int64(sim.Leaked))
	count("sched_stray_goroutine_calls", int64(simrt.TakeStrayCalls()))
	count("policy_"+opts.Policy.String(), 1)
	if sim.Switches > 0 {
		seen("c14", sim.Sig)
	}
	if err != nil {
		switch err.(type) {
		case *simrt.Deadlock:
			violate(t, "C14", "no-deadlock", "deadlock:s5", details(err.Error()))
		case *simrt.Inconclusive:
			// the code under test waits on real timers, which the simulator does not own
			count("c14_timer_wait_inconclusive", 1)
		case *simrt.StepLimit:
			// a long but finite run cannot be told from a livelock by a step count:
			// inconclusive, counted, never a violation (blocking is covered by deadlock detection)
			count("c14_step_limit_inconclusive", 1)
		default:
			violate(t, "C14", "no-panic", "panic:s5", details(err.Error()))
		}
		return
	}
	if races > 0 {
		violate(t, "C14", "race-free", "race:"+strings.Join(racePairs(raceText), " ; "), details(fmt.Sprintf("%d data race report(s) from the Go race detector", races)))
		return
	}
	initial := func(k string) int {
		if k == "len" {
			return builtinID
		}
		return 0
	}
	okOnChain := func(k string, level, v int) bool {
		if v == initial(k) {
			return true
		}
		for l := level; l >= 0; l-- {
			if written[k][l][v] {
				return true
			}
		}
		return false
	}
	for i := range seenVals {
		for _, r := range seenVals[i] {
			if r.bad != "" {
				violate(t, "C14", "reads-return-written-values", "badvalue:s5", details(r.bad))
				return
			}
			if (r.o.kind == 1 || r.o.kind == 3) && !okOnChain(r.o.key, r.o.level, r.val) {
				violate(t, "C14", "reads-return-values-written-on-the-chain", "foreignvalue:s5", details(fmt.Sprintf("T%d read %d for %s on %s: never written to that key on its chain", i, r.val, r.o.key, names[r.o.level])))
				return
			}
		}
	}
	// a Set on one level never changes what its ancestors observe
	for _, k := range keys {
		for l := range levels {
			v, bad := asInt(levels[l].Value(k))
			if bad != "" || !okOnChain(k, l, v) {
				violate(t, "C14", "final-state-is-a-written-value", "badfinal:s5", details(fmt.Sprintf("final %s.Value(%s) = %d %s", names[l], k, v, bad)))
				return
			}
		}
	}
}

package harness

import (
	"testing"

	"pgregory.net/rapid"
)

// TestC10 — histories of New/Set/Value/Has against the reference model.
func TestC10(t *testing.T) {
	runBatches(t, "c10", func(t *rapid.T) {
		c10Run(t)
		count("runs", 1)
	})
}

// TestC10Exec — C10 for the contexts plush creates and is lent while it renders (harness/c10exec.go).
func TestC10Exec(t *testing.T) {
	runBatches(t, "c10exec", func(t *rapid.T) {
		c10ExecRun(t)
		count("runs", 1)
	})
}

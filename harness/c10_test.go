package harness

import (
	"testing"

	"pgregory.net/rapid"
)

// TestC10 — histories of New/Set/Value/Has against the reference model.
func TestC10(t *testing.T) {
	runBatches(t, "c10", func(t *rapid.T) {
		c10Run(t)
		count("runs", 1)
	})
}

package harness

import (
	"fmt"
	"strings"

	"pgregory.net/rapid"
)

// The probe grammar (DESIGN.md §3): generated plush programs whose helper
// calls ("probes") carry unique ids that map back to (template, line, position
// class). Every tag that contains a probe is written on one line.

type kind int

const (
	kInt kind = iota
	kStr
	kBool
	kArr
	kHash
	kAny
)

type probeKind int

const (
	pkValue  probeKind = iota // pv(id, v) (interface{}, error)
	pkErr                     // pe(id) error
	pkBlock                   // pb(id) { ... } (template.HTML, error)
	pkMethod                  // obj.PM(id, v) (interface{}, error)
	pkFeeder                  // partialFeeder(name)
	pkOpts                    // po(id, {..}) (string, error) — helper with trailing map
)

func (k probeKind) String() string {
	return [...]string{"value", "err-only", "block", "method", "feeder", "opts"}[k]
}

// Site is one syntactic probe call site.
type Site struct {
	ID      int
	Kind    probeKind
	Tmpl    string // "" = main template, else partial name
	Line    int    // 1-based line, within Tmpl, of the tag that contains the call
	TopLine int    // line in the main template of the tag through which it is reached (outermost partial call), 0 if unknown
	AltLine int    // non-zero: the statement begins on this later line of a multi-statement tag; plush names the statement's line, the property text the tag's: both are accepted (DESIGN §16.4)
	Class   string // position class
	ElseIf  bool   // sits in an else-if condition (C15: ambiguous line)
	Frames  int    // number of evaluator frames between the probe and its tag
	Want    kind   // kind of value the enclosing construct needs
	Name    string // feeder: partial name
	Late    bool   // written inside a contentFor block (runs later, through contentOf)
	Ambig   bool   // C15: which tag "contains the failing statement" is not determined by the property text
	Ctx     string // innermost enclosing body: if-body, else-body, for-body, fn-body, block-helper-block, htmlEscape-block, contentFor-block, contentOf-default-block, partial, layout, top
}

// Program is one generated workload.
type Program struct {
	Main        string
	Partials    map[string]string
	Sites       map[int]*Site
	FeederSites map[string]*Site
	JS          bool // contentType javascript
	Features    map[string]int
	MapRegions  int
	Tolerant    []TolerantUse // uses of the unbound identifier zz
	Failing     string        // non-empty: a generated statement that fails on its own (kind)
	FailLine    int
	FailAltLine int                               // see Site.AltLine
	ScopeExpect []string                          // scope snippets: what each sibobs() call observes, in call order
	FailMarker  *Site                             // nested natural failure: a probe evaluated in the same tag just before the failing operation (tells whether it ran)
	Names       []string                          // every name the generator made up (let / loop / function variables)
	CtxMaps     map[string]map[string]interface{} // context variables the program expects: option maps for partial() that come from the CALLER's data
	Broken      string                            // non-empty: the program contains this syntactically broken tag
	BrokenLine  int                               // ... which begins on this line of the main template
}

// TolerantUse is one place where the never-bound identifier zz was written.
type TolerantUse struct {
	Tolerated bool // true: directly an if/else-if condition or operand of ! == != && ||
	Class     string
	Line      int // line of the tag in the main template (untolerated uses are written at top level only)
}

type tmpl struct {
	name string
	sb   strings.Builder
	line int
	top  int // line in main of the outermost partial tag leading here (0 for main)
}

func (b *tmpl) write(s string) {
	b.sb.WriteString(s)
	b.line += strings.Count(s, "\n")
}

type variable struct {
	name  string
	k     kind
	elem  kind // arrays: element kind
	fn    *fnSig
	loc   bool    // created by a literal in this execution (safe to index-assign)
	tmpl  string  // functions: template in which the body is written
	sites []*Site // functions: probe sites written in the body
}

type fnSig struct {
	params []kind
	ret    kind
	multi  bool // multi-tag body: call only in output position
}

type genOpts struct {
	probes        bool  // emit probes
	probePct      int   // probability (percent) of wrapping an expression in a probe
	mapRegions    bool  // emit for loops over a multi-entry Go map, inside region markers
	pureMapBody   bool  // ... with a probe-free body, so call order does not depend on the visiting order (C13/C14)
	tolerant      bool  // emit uses of the unbound identifier zz
	toleratedOnly bool  // ... only where the property tolerates it (programs that must still render: probes + zz)
	lateLet       bool  // ... and the program may END with `let zz = 7`: a binding the reads before it must never see, in this render or in any other (leak detector)
	failing       bool  // may emit one naturally failing statement
	failPct       int   // ... with this probability (default 100)
	failNested    bool  // instead: one failing operation somewhere nested, guarded by a marker probe
	litModePct    int   // probability (percent) that the program is "mostly literal": data is read only inside a few chosen kinds of body; and of text-only programs
	brokenPct     int   // probability (percent) of one syntactically broken tag at top level (the program then fails to parse)
	brokenKinds   []int // restrict broken tags to these catalogue entries (swarm)
	noise         bool  // multi-line strings / comments between tags (C15)
	fewArgs       bool  // may end the program with a user-function call that has too few arguments (panics on the pinned tree)
	ctxProbes     bool  // emit ck() context probes and pbd() {..} detached-root block helpers (C10 inside renders)
	splitTags     bool  // break single-statement tags across lines at safe points (C15: the tag still begins on the same line)
	sharedSafe    bool  // never mutate data that may live in a shared parent (always true today)
	maxPieces     int
	maxDepth      int
	noPartials    bool
	noContent     bool // no contentFor / contentOf (filler of a page and a layout that share one context: a block the one stores would be found by the other)
	sideEffects   bool // C13: side-effecting hash values etc. (po/pv logging is always on)
}

type gen struct {
	t         *rapid.T
	o         genOpts
	p         *Program
	cur       *tmpl
	scope     []variable
	nextID    int
	nextVar   int
	pending   []*Site
	frames    int
	inFor     int
	inFn      int
	late      bool
	cfDefined map[string]bool // contentFor names this program has defined anywhere so far
	pdepth    int             // partial nesting depth
	nest      int             // > 0 inside any block body or partial
	siteLog   []*Site         // every site created, in order
	ctx       []string        // stack of enclosing bodies
	litOnly   bool            // mostly-literal program
	dataZones map[string]bool // ... except inside these kinds of body
	elseIf    bool
}

func (g *gen) feat(name string) { g.p.Features[name]++ }

// intn: uniform choice in [lo,hi]; size: biased towards lo (for counts).
func (g *gen) intn(label string, lo, hi int) int { return lo + uni(g.t, label, hi-lo+1) }
func (g *gen) size(label string, lo, hi int) int { return rapid.IntRange(lo, hi).Draw(g.t, label) }
func (g *gen) pct(label string, p int) bool      { return uni(g.t, label, 100) < p }

func (g *gen) fresh(prefix string) string {
	g.nextVar++
	n := fmt.Sprintf("%s%d", prefix, g.nextVar)
	g.p.Names = append(g.p.Names, n)
	return n
}

func (g *gen) newSite(k probeKind, class string, want kind) *Site {
	g.nextID++
	s := &Site{ID: g.nextID, Kind: k, Tmpl: g.cur.name, Class: class, ElseIf: g.elseIf, Frames: g.frames, Want: want, Late: g.late, Ctx: g.curCtx()}
	g.p.Sites[s.ID] = s
	g.pending = append(g.pending, s)
	g.siteLog = append(g.siteLog, s)
	return s
}

// tag writes one tag on one line and stamps the probes generated for it.
func (g *gen) tag(open, body, close string) {
	if strings.Contains(body, "\n") {
		panic("generator: tag with probes spans lines: " + body)
	}
	line := g.cur.line
	for _, s := range g.pending {
		s.Line = line
		if g.cur.top != 0 {
			s.TopLine = g.cur.top
		} else {
			s.TopLine = line
		}
	}
	g.pending = g.pending[:0]
	if g.o.splitTags && g.pct("splittag", 30) {
		if nb, n := splitBody(body, func(i int) bool { return g.pct("splitat", 40) }); n > 0 {
			g.feat("tag_split_across_lines")
			g.p.Features["tag_split_newlines"] += n
			body = nb
			// `<%=` itself is the statement's first token; after a plain `<%` the statement begins with
			// its own first token, and a statement that begins on a later line than its tag is outside
			// what C15 pins down (tag line or statement line?), so only `<%=` may be followed by a break
			if open == "<%=" && g.pct("splitopen", 25) {
				open += "\n"
			}
		}
	}
	if g.o.splitTags && g.pct("closeonnextline", 12) {
		// the closing delimiter at the start of the next line: the last token of the code is DIRECTLY followed by a
		// newline (an identifier, keyword or number is read up to the character after it)
		g.feat("tag_closed_on_next_line")
		g.cur.write(open + " " + body + "\n" + close)
		return
	}
	g.cur.write(open + " " + body + " " + close)
}

// splitBody breaks the code of ONE tag across several lines at places where a
// line break cannot change its meaning or move a statement: after a comma, an
// opening parenthesis / bracket / hash-literal brace, or a binary operator,
// never inside a string, never inside a block (the statements of a block keep
// the line of the tag), never when the code has a line comment or a function
// literal. The tag still BEGINS on the same line, which is the line C15 names.
func splitBody(body string, want func(i int) bool) (string, int) {
	if strings.Contains(body, "#") || strings.Contains(body, "fn(") || strings.Contains(body, "fn (") {
		return body, 0
	}
	var sb strings.Builder
	n := 0
	blockDepth := 0
	var braces []bool // true: block brace, false: hash literal
	inStr := byte(0)
	prevSig := byte(0) // last significant (non-space) byte outside strings
	prevWord := ""
	word := ""
	for i := 0; i < len(body); i++ {
		c := body[i]
		sb.WriteByte(c)
		if inStr != 0 {
			if c == '\\' && inStr == '"' && i+1 < len(body) {
				i++
				sb.WriteByte(body[i])
				continue
			}
			if c == inStr {
				inStr = 0
				prevSig = c
			}
			continue
		}
		isWordByte := c == '_' || c == '.' || c == '-' && word != "" || c >= '0' && c <= '9' || c >= 'a' && c <= 'z' || c >= 'A' && c <= 'Z'
		if isWordByte {
			word += string(c)
		} else if word != "" {
			prevWord, word = word, ""
		}
		switch c {
		case '"', '`':
			inStr = c
			continue
		case '{':
			isHash := prevSig == 0 || strings.IndexByte("(,=:[+!&|<>~*/", prevSig) >= 0 || (isIdentByte(prevSig) && prevWord == "return")
			braces = append(braces, !isHash)
			if !isHash {
				blockDepth++
				if strings.TrimSpace(body[i+1:]) != "" {
					// a block WRITTEN INSIDE the tag (`if (c) { return a } else { return b }`): its statements
					// are on the tag's line only as long as nothing before them is moved to another line
					return body, 0
				}
			}
		case '}':
			if len(braces) > 0 {
				if braces[len(braces)-1] {
					blockDepth--
				}
				braces = braces[:len(braces)-1]
			}
		}
		if c != ' ' {
			prevSig = c
		}
		if blockDepth > 0 || i+1 >= len(body) {
			continue
		}
		cand := false
		switch c {
		case ',', '(', '[':
			cand = true
		case '{':
			cand = len(braces) > 0 && !braces[len(braces)-1]
		case ' ':
			// a space right after a binary operator that is itself preceded by a space: ` + `, ` == `, ` && `
			j := i - 1
			k := j
			for k >= 0 && strings.IndexByte("+*/=!&|<>~", body[k]) >= 0 {
				k--
			}
			cand = k < j && k >= 0 && body[k] == ' ' && j-k <= 2
		}
		if cand && want(i) {
			sb.WriteString("\n  ")
			n++
		}
	}
	if inStr != 0 || blockDepth != 0 {
		return body, 0
	}
	return sb.String(), n
}

func isIdentByte(c byte) bool {
	return c == '_' || c >= '0' && c <= '9' || c >= 'a' && c <= 'z' || c >= 'A' && c <= 'Z'
}

func (g *gen) vars(k kind) []variable {
	var out []variable
	for _, v := range g.scope {
		if v.k == k && v.fn == nil {
			out = append(out, v)
		}
	}
	return out
}

func (g *gen) funcs(ret kind) []variable {
	var out []variable
	for _, v := range g.scope {
		if v.fn != nil && !v.fn.multi && v.fn.ret == ret {
			out = append(out, v)
		}
	}
	return out
}

// ---------------------------------------------------------------- expressions

var cfPool = []string{"cA", "cB", "cC", "cD"}

var strLits = []string{`"a"`, `"b<c"`, `"x&y"`, `"hello world"`, `""`, `"q'r"`, "`back tick`", `"ünï"`, `"1"`}

// maybeProbe wraps e in a probe of the wanted kind with probability probePct.
func (g *gen) maybeProbe(e string, k kind, class string, force bool) string {
	if !g.o.probes {
		return e
	}
	if !force && !g.pct("probe", g.o.probePct) {
		return e
	}
	switch g.intn("probekind", 0, 9) {
	case 0, 1:
		s := g.newSite(pkMethod, class, k)
		g.feat("probe_method")
		return fmt.Sprintf("obj.PM(%d, %s)", s.ID, e)
	case 2:
		s := g.newSite(pkMethod, class, k)
		g.feat("probe_method_value_receiver")
		return fmt.Sprintf("vobj.PV(%d, %s)", s.ID, e)
	case 4:
		// same probe with THREE results, the error last
		s := g.newSite(pkValue, class, k)
		g.feat("probe_value_three_results")
		return fmt.Sprintf("pv3(%d, %s)", s.ID, e)
	case 3:
		// same probe, but the helper's last result is declared as an interface that EMBEDS error
		// (not the plain error type): still a helper that returns an error
		s := g.newSite(pkValue, class, k)
		g.feat("probe_value_error_subinterface")
		return fmt.Sprintf("pvi(%d, %s)", s.ID, e)
	default:
		s := g.newSite(pkValue, class, k)
		g.feat("probe_value")
		return fmt.Sprintf("pv(%d, %s)", s.ID, e)
	}
}

func (g *gen) expr(k kind, depth int, class string) string {
	g.frames++
	defer func() { g.frames-- }()
	e := g.rawExpr(k, depth, class)
	return g.maybeProbe(e, k, class, false)
}

// operand returns an expression safe to use as an infix/prefix operand
// without relying on plush's precedence table.
func (g *gen) operand(k kind, depth int, class string) string {
	e := g.expr(k, depth, class)
	if needsParens(e) {
		return "(" + e + ")"
	}
	return e
}

func needsParens(e string) bool {
	depth := 0
	inStr := byte(0)
	for i := 0; i < len(e); i++ {
		c := e[i]
		if inStr != 0 {
			if c == inStr {
				inStr = 0
			}
			continue
		}
		switch c {
		case '"', '`':
			inStr = c
		case '(', '[', '{':
			depth++
		case ')', ']', '}':
			depth--
		case ' ':
			if depth == 0 {
				return true
			}
		case '!':
			if depth == 0 && i == 0 {
				return true
			}
		}
	}
	return false
}

func (g *gen) rawExpr(k kind, depth int, class string) string {
	if k == kAny {
		k = []kind{kInt, kStr, kBool}[g.intn("anykind", 0, 2)]
	}
	leaf := depth <= 0 || g.pct("leaf", 35)
	if g.litOnly {
		if !g.dataAllowed() {
			// literal leaves only, but keep operators
			if leaf || g.pct("litleaf", 50) {
				switch k {
				case kInt:
					return fmt.Sprint(g.intn("lit", 0, 12))
				case kStr:
					return strLits[g.intn("slit", 0, len(strLits)-1)]
				case kBool:
					return []string{"true", "false", "1 > 2", "2 > 1"}[g.intn("blit", 0, 3)]
				case kArr:
					return "[1, 2, 3]"
				}
			}
		} else if leaf {
			// in a data zone: read the values that differ between data variants
			switch k {
			case kInt:
				return []string{"n1", "xs[0]", "n1 + 1"}[g.intn("dz", 0, 2)]
			case kStr:
				return []string{"s1", "rx", `s1 + "!"`}[g.intn("dz", 0, 2)]
			case kBool:
				return []string{"n1 > 3", `s1 == "ab<c"`, "n1 == 4"}[g.intn("dz", 0, 2)]
			}
		}
	}
	switch k {
	case kInt:
		if leaf {
			vs := g.vars(kInt)
			switch c := g.intn("intleaf", 0, 6); {
			case c <= 1 && len(vs) > 0:
				return vs[g.intn("var", 0, len(vs)-1)].name
			case c == 2:
				return "n1"
			case c == 3:
				g.feat("member")
				if g.pct("idxcallee", 25) {
					g.feat("index_callee")
					return "(objs[" + g.maybeProbe(fmt.Sprint(g.intn("oi", 0, 1)), kInt, "index", false) + "].N)"
				}
				return []string{"obj.N", "obj.Inner.Depth", `m1["n"]`, "xs[1]", "obj.Nums[0]", "(objs[1].Inner.Depth)", `(om["x"].N)`}[g.intn("path", 0, 6)]
			default:
				if g.pct("bigint", 6) {
					// values beyond 32 bits, chosen so that some pairs agree modulo 2^32
					return []string{"4294967301", "5213240941", "918273645", "4294967295", "8589934597", "1099511627781"}[g.intn("bigv", 0, 5)]
				}
				return fmt.Sprint(g.intn("lit", 0, 12))
			}
		}
		switch g.intn("intform", 0, 9) {
		case 0, 1, 2:
			op := []string{"+", "-", "*"}[g.intn("op", 0, 2)]
			g.feat("infix_arith")
			return g.operand(kInt, depth-1, "infix-left:"+op) + " " + op + " " + g.operand(kInt, depth-1, "infix-right:"+op)
		case 3:
			g.feat("infix_div")
			return g.operand(kInt, depth-1, "infix-left:/") + " / " + fmt.Sprint(g.intn("div", 1, 4))
		case 4:
			g.feat("len")
			return "len(" + g.expr(kArr, depth-1, "go-helper-arg") + ")"
		case 5:
			return "(" + g.expr(kInt, depth-1, "grouped") + ")"
		case 6:
			g.feat("index_access")
			return g.maybeProbe(g.intArray(), kArr, "indexed-value", false) + "[" + g.maybeProbe(fmt.Sprint(g.intn("ix", 0, 2)), kInt, "index", false) + "]"
		case 7:
			g.feat("method_call")
			if g.pct("nilelem", 20) {
				// a method called on a NIL element of a slice / map of pointers (the method does not touch its receiver)
				g.feat("method_call_on_nil_element")
				return "(" + []string{"nobjs[0]", `nm["x"]`}[g.intn("nilel", 0, 1)] + ".Add(" + g.expr(kInt, 0, "method-arg") + ", " + g.expr(kInt, 0, "method-arg") + "))" // leaf arguments: while the callee is evaluated the collection's NAME is bound to the element
			}
			return "obj.Add(" + g.expr(kInt, depth-1, "method-arg") + ", " + g.expr(kInt, depth-1, "method-arg") + ")"
		case 8:
			// variadic helper: the failing call can sit in the fixed or the variadic part
			g.feat("helper_variadic")
			n := g.size("nvar", 0, 3)
			args := []string{g.expr(kInt, depth-1, "go-helper-arg")}
			for i := 0; i < n; i++ {
				args = append(args, g.expr(kInt, depth-1, "go-helper-variadic-arg"))
			}
			return "sum(" + strings.Join(args, ", ") + ")"
		default:
			// three positional arguments, then auto-filled options map and HelperContext
			g.feat("helper_3args_autofill")
			s := g.newSiteIf(pkOpts, "go-helper-call", kInt)
			id := 0
			if s != nil {
				id = s.ID
			}
			return fmt.Sprintf("p3(%d, %s, %s, %s)", id, g.expr(kInt, depth-1, "go-helper-arg"), g.expr(kInt, depth-1, "go-helper-arg3"), g.expr(kInt, depth-1, "go-helper-arg3"))
		}
	case kStr:
		if leaf {
			vs := g.vars(kStr)
			switch c := g.intn("strleaf", 0, 6); {
			case c <= 1 && len(vs) > 0:
				return vs[g.intn("var", 0, len(vs)-1)].name
			case c == 2:
				return []string{"s1", "s2"}[g.intn("sv", 0, 1)]
			case c == 3:
				g.feat("member")
				if g.pct("idxcallee", 25) {
					g.feat("index_callee")
					return "(objs[" + g.maybeProbe(fmt.Sprint(g.intn("oi", 0, 1)), kInt, "index", false) + "].Name)"
				}
				if g.pct("idxfield", 20) {
					// an indexed FIELD followed by a member (evalIndexCallee with a dotted left side)
					g.feat("indexed_field_member")
					return []string{"(obj.Kids[1].Label)", "(obj.Kids[" + g.maybeProbe(fmt.Sprint(g.intn("ki", 0, 1)), kInt, "index", false) + "].Label)", "(obj.Inner.Kids[0].Label)", "(obj.Kids[1].Kids[0].Label)", `(obj.KM["a"].Label)`, `(om["x"].Kids[1].Label)`}[g.intn("kpath", 0, 5)]
				}
				return []string{"obj.Name", "obj.Inner.Label", `m1["s"]`, "ss[0]", "obj.Tags[1]", "(objs[0].Name)", `(om["x"].Name)`}[g.intn("path", 0, 6)]
			default:
				if g.pct("randlit", 25) {
					return fmt.Sprintf("%q", "w"+fmt.Sprint(g.intn("wn", 0, 9999)))
				}
				return strLits[g.intn("slit", 0, len(strLits)-1)]
			}
		}
		switch g.intn("strform", 0, 9) {
		case 0, 1:
			g.feat("infix_concat")
			return g.operand(kStr, depth-1, "infix-left:+") + " + " + g.operand(kAny, depth-1, "infix-right:+")
		case 2:
			g.feat("truncate")
			if g.pct("noopts", 40) {
				// options map left out: plush supplies one, the helper fills in its defaults
				g.feat("helper_defaulted_options")
				if g.pct("tagopts", 50) {
					return "tagopts(" + g.expr(kStr, depth-1, "go-helper-arg") + ")"
				}
				return "truncate(" + g.expr(kStr, depth-1, "go-helper-arg") + ")"
			}
			if g.pct("optsvar", 30) {
				// the options are a map the caller holds (not a literal built for this call)
				g.feat("helper_options_from_caller_map")
				return "truncate(" + g.expr(kStr, depth-1, "go-helper-arg") + ", " + []string{"topts", "topt2"}[g.intn("toptwhich", 0, 1)] + ")"
			}
			return "truncate(" + g.expr(kStr, depth-1, "go-helper-arg") + `, {"size": ` + g.expr(kInt, 0, "hash-value") + `, "trail": ".."})`
		case 3:
			return "(" + g.expr(kStr, depth-1, "grouped") + ")"
		case 4:
			if g.pct("inflect", 50) {
				g.feat("inflection")
				if g.pct("pathfor", 35) {
					g.feat("path_for")
					if g.pct("pathforstruct", 50) {
						return []string{"pathFor(car)", "pathFor(car2)", "pathFor(page)", "pathFor(car)"}[g.intn("pathforwhich", 0, 3)]
					}
					return "pathFor(" + g.expr(kStr, depth-1, "go-helper-arg") + ")"
				}
				if g.pct("envhelper", 30) {
					// the process environment is the harness's (TestMain sets VERIF_ENV_A and never sets VERIF_ENV_MISSING)
					g.feat("env_helper")
					if g.pct("envor", 60) {
						return `envOr("VERIF_ENV_MISSING", ` + g.expr(kStr, depth-1, "go-helper-arg") + ")"
					}
					return `env("VERIF_ENV_A")`
				}
				if g.pct("varhelper", 12) {
					// a helper whose trailing parameter differs from caller to caller (options map, helper context, a plain
					// value): what plush fills in for the omitted argument depends on the function that is bound NOW
					g.feat("helper_with_caller_dependent_signature")
					return "vh(" + g.expr(kInt, depth-1, "go-helper-arg") + ")"
				}
				h := []string{"upcase", "downcase", "capitalize", "pluralize", "singularize", "camelize", "dasherize", "underscore", "ordinalize", "camelize_down_first", "jsEscape", "htmlEscape"}[g.intn("infl", 0, 11)]
				return h + "(" + g.expr(kStr, depth-1, "go-helper-arg") + ")"
			}
			g.feat("method_call")
			if g.pct("dual", 40) {
				// one struct type reached both by value (dv) and through a pointer (dp); it has value-receiver
				// and pointer-receiver methods, so the method sets (and method indexes) of T and *T differ
				g.feat("method_call_value_and_pointer_receivers")
				return []string{"dv.Balance()", "dp.Balance()", "dp.Title()", "dv.Title()", "dv.Archive()", "dp.Archive()", "dp.Zed()", "dv.Zed()"}[g.intn("dualm", 0, 7)]
			}
			return "obj.Greet(" + g.expr(kStr, depth-1, "method-arg") + ")"
		case 5:
			g.feat("helper_opts")
			s := g.newSiteIf(pkOpts, "go-helper-call", kStr)
			if s == nil {
				return "obj.Greet(" + g.expr(kStr, depth-1, "method-arg") + ")"
			}
			return fmt.Sprintf(`po(%d, {"k": %s, "j": %s})`, s.ID, g.expr(kAny, depth-1, "hash-value"), g.expr(kAny, depth-1, "hash-value"))
		case 6:
			g.feat("index_access")
			return "[" + g.expr(kStr, depth-1, "array-element") + ", " + g.expr(kStr, depth-1, "array-element") + "][" + fmt.Sprint(g.intn("ix", 0, 1)) + "]"
		case 7:
			// helper that renders a template string through HelperContext.Render
			g.feat("helper_render")
			s := g.newSiteIf(pkOpts, "go-helper-call", kStr)
			id := 0
			if s != nil {
				id = s.ID
			}
			return fmt.Sprintf("pr(%d, %s)", id, g.expr(kStr, depth-1, "go-helper-arg"))
		case 8:
			g.feat("chained_call")
			if s := g.newSiteIf(pkMethod, "chained-call-head", kStr); s != nil && g.pct("chainprobe", 60) {
				// the head of the chain is a probe returning (value, error)
				g.feat("chained_call_probe_head")
				return fmt.Sprintf("(obj.PS(%d).Name)", s.ID)
			} else if s != nil {
				// site created but not used: drop it again
				delete(g.p.Sites, s.ID)
				g.pending = g.pending[:len(g.pending)-1]
				g.siteLog = g.siteLog[:len(g.siteLog)-1]
			}
			return "(obj.Self().Name)"
		default:
			// a helper that renders, through HelperContext.Render, a template string containing a probe
			s := g.newSiteIf(pkValue, "help-render", kInt)
			if s == nil {
				return "(obj.Self().Name)"
			}
			g.feat("helper_render_inner_probe")
			return fmt.Sprintf("pr2(%d)", s.ID)
		}
	case kBool:
		if leaf {
			vs := g.vars(kBool)
			switch c := g.intn("boolleaf", 0, 5); {
			case c <= 1 && len(vs) > 0:
				return vs[g.intn("var", 0, len(vs)-1)].name
			case c == 2:
				return []string{"b1", "b0", "obj.On", `m1["b"]`}[g.intn("bv", 0, 3)]
			case c == 3:
				return "true"
			default:
				return "false"
			}
		}
		switch g.intn("boolform", 0, 8) {
		case 8:
			// floats: arithmetic and comparison
			g.feat("float_ops")
			fl := func() string {
				switch g.intn("flform", 0, 3) {
				case 0:
					return g.maybeProbe("f64", kAny, "infix-left:float", false)
				case 1:
					return []string{"0.5", "1.5", "2.25", "100.0"}[g.intn("fllit", 0, 3)]
				default:
					op := []string{"+", "-", "*", "/"}[g.intn("flop", 0, 3)]
					return "(" + g.maybeProbe("f64", kAny, "infix-left:float", false) + " " + op + " " + []string{"0.5", "2.0", "0.25"}[g.intn("fllit2", 0, 2)] + ")"
				}
			}
			op := []string{"<", ">", "<=", ">=", "==", "!="}[g.intn("op", 0, 5)]
			return fl() + " " + op + " " + fl()
		case 0, 1:
			op := []string{"<", ">", "<=", ">=", "==", "!="}[g.intn("op", 0, 5)]
			g.feat("infix_compare")
			return g.operand(kInt, depth-1, "infix-left:"+op) + " " + op + " " + g.operand(kInt, depth-1, "infix-right:"+op)
		case 2:
			op := []string{"==", "!=", "<", "~="}[g.intn("op", 0, 3)]
			g.feat("infix_strcmp")
			if op == "~=" && g.pct("rxdata", 35) {
				// pattern taken from the data: differs between data variants
				g.feat("regex_from_data")
				return g.operand(kStr, depth-1, "infix-left:~=") + " ~= rx"
			}
			if op == "~=" {
				// varied patterns: a process-wide memo keyed by the pattern stays cold for new ones
				pat := "^[a-" + string(rune('m'+g.intn("patc", 0, 13))) + "]"
				if g.pct("patsfx", 50) {
					pat += ".*" + fmt.Sprint(g.intn("patn", 0, 99)) + "?"
				}
				if g.pct("patlen", 40) {
					// hundreds of distinct patterns that disagree with each other on most operands (bounded memo
					// tables recycle slots; a stale entry must show as a different answer)
					pat = fmt.Sprintf("^.{%d,%d}$", g.intn("patlo", 0, 9), g.intn("pathi", 10, 40))
					if g.pct("patneg", 30) {
						pat = fmt.Sprintf("^[^%s]{%d}", string(rune('a'+g.intn("patx", 0, 25))), g.intn("patlo2", 1, 6))
					}
				}
				return g.operand(kStr, depth-1, "infix-left:~=") + ` ~= "` + pat + `"`
			}
			return g.operand(kStr, depth-1, "infix-left:"+op) + " " + op + " " + g.operand(kStr, depth-1, "infix-right:"+op)
		case 3, 4:
			op := []string{"&&", "||"}[g.intn("op", 0, 1)]
			g.feat("infix_logic")
			return g.operand(kBool, depth-1, "infix-left:"+op) + " " + op + " " + g.operand(kBool, depth-1, "infix-right:"+op)
		case 5:
			g.feat("prefix_not")
			return "!" + g.operandNot(depth-1)
		case 6:
			op := []string{"==", "!="}[g.intn("op", 0, 1)]
			g.feat("infix_booleq")
			return g.operand(kBool, depth-1, "infix-left:"+op) + " " + op + " " + g.operand(kBool, depth-1, "infix-right:"+op)
		default:
			op := []string{"==", "!="}[g.intn("op", 0, 1)]
			g.feat("infix_nil")
			return g.operand(kAny, depth-1, "infix-left:"+op) + " " + op + " nil"
		}
	case kArr:
		if leaf {
			vs := g.vars(kArr)
			switch c := g.intn("arrleaf", 0, 4); {
			case c <= 1 && len(vs) > 0:
				return vs[g.intn("var", 0, len(vs)-1)].name
			case c == 2:
				return "xs"
			default:
				return []string{"ss", "obj.Tags", "obj.Nums"}[g.intn("av", 0, 2)]
			}
		}
		g.feat("array_literal")
		n := g.size("alen", 1, 3)
		var parts []string
		for i := 0; i < n; i++ {
			if fs := append(g.funcs(kInt), g.funcs(kStr)...); len(fs) > 0 && g.pct("fnelem", 30) {
				// a user function called inside a larger statement: what follows it in
				// the same statement still belongs to that statement
				g.feat("user_fn_call_in_array")
				parts = append(parts, g.callUser(fs[g.intn("fn", 0, len(fs)-1)], depth-1))
				continue
			}
			parts = append(parts, g.expr(kAny, depth-1, "array-element"))
		}
		return "[" + strings.Join(parts, ", ") + "]"
	case kHash:
		g.feat("hash_literal")
		return g.hashLit(depth, false)
	}
	return "0"
}

func (g *gen) operandNot(depth int) string {
	e := g.expr(kBool, depth, "prefix-operand:!")
	if needsParens(e) {
		return "(" + e + ")"
	}
	return e
}

// intArray names an array whose elements are ints and that has >= 3 elements.
func (g *gen) intArray() string {
	c := []string{"xs", "obj.Nums"}
	for _, v := range g.scope {
		if v.k == kArr && v.elem == kInt && v.fn == nil {
			c = append(c, v.name)
		}
	}
	return c[g.intn("intarr", 0, len(c)-1)]
}

// newSiteIf creates a probe site only when probes are enabled.
func (g *gen) newSiteIf(k probeKind, class string, want kind) *Site {
	if !g.o.probes {
		return nil
	}
	return g.newSite(k, class, want)
}

// hashLit writes a hash literal. With dup, keys may repeat (source order then
// decides the winner) and values are side-effecting probes.
func (g *gen) hashLit(depth int, dup bool) string {
	n := g.size("hlen", 1, 4)
	keys := []string{"a", "b", "c", "d"}
	var parts []string
	for i := 0; i < n; i++ {
		k := keys[i]
		if dup && i > 0 && g.pct("dupkey", 40) {
			k = keys[g.intn("dk", 0, i-1)]
			g.feat("hash_dup_key")
		}
		v := g.expr(kAny, depth-1, "hash-value")
		if dup {
			v = g.maybeProbe(v, kAny, "hash-value", true)
		}
		if g.o.probes && g.pct("computedkey", 6) {
			// DORMANT probe: a computed hash key. plush does not evaluate key expressions today (the entry lands
			// under the key expression's first token), so this probe is never invoked and nothing is asserted; a
			// change that starts evaluating keys makes it a fault point like any other (fault points are the
			// invocations that actually happen)
			g.feat("dormant_probe_hash_key")
			ks := g.newSite(pkValue, "hash-key", kStr)
			parts = append(parts, fmt.Sprintf("pv(%d, %q): %s", ks.ID, k, v))
			continue
		}
		parts = append(parts, fmt.Sprintf("%q: %s", k, v))
	}
	if n > 1 {
		g.feat("hash_multi")
	}
	return "{" + strings.Join(parts, ", ") + "}"
}

// useFn notes that f is called from the current template.
func (g *gen) useFn(f variable) {
	if f.tmpl != g.cur.name {
		// body written in one template, executed by the evaluator of another:
		// the property text does not say which tag "contains" the failure
		g.feat("user_fn_call_cross_template")
		for _, s := range f.sites {
			s.Ambig = true
		}
	}
}

func (g *gen) callUser(f variable, depth int) string {
	g.feat("user_fn_call")
	g.useFn(f)
	var args []string
	for _, pk := range f.fn.params {
		args = append(args, g.expr(pk, depth, "user-fn-arg"))
	}
	if g.o.probes && g.pct("surplusarg", 8) {
		// DORMANT probe: more arguments than the function has parameters. plush does not evaluate the surplus
		// ones today; a change that does makes them fault points like any other
		g.feat("dormant_probe_surplus_argument")
		s := g.newSite(pkValue, "user-fn-surplus-arg", kInt)
		args = append(args, fmt.Sprintf("pv(%d, 1)", s.ID))
	}
	return f.name + "(" + strings.Join(args, ", ") + ")"
}

// ----------------------------------------------------------------- statements

var textBits = []string{"hello", " ", "\n", "<p>", "</p>", "&amp;", "a < b", "\"q\"", "it's", "é", "\n\n", "x", "\t", " 100 ", "<br/>", "\r\n", "=", "{", "}", "# not a comment", "%", "$", "\f", "😀", "日本", "<", "<<", "< %", "\n\n\n",
	// backslashes: plush's text mode treats a backslash before '<' specially (escaped tags); a tag-free text is not
	// necessarily rendered byte for byte
	"\\", "\\\\", "\\<", "\\\\<b>", "a\\b\\", "\\ <", "C:\\\\<dir>\\file", "\\\\\\<"}

func (g *gen) text() {
	n := g.size("ntext", 0, 4)
	var sb strings.Builder
	for i := 0; i < n; i++ {
		sb.WriteString(textBits[g.intn("tb", 0, len(textBits)-1)])
	}
	s := sb.String()
	s = strings.ReplaceAll(s, "<%", "< %")
	// (a template that ENDS in `\<` makes the lexer's readHTML slice past the input and panic on the pinned tree:
	// totality of parsing is C03's subject — observed, not generated; the padding below also avoids it)
	if strings.HasSuffix(s, "<") || strings.HasSuffix(s, "\\") {
		s += " " // the next text run could begin with '%'; a backslash right before a tag would escape the tag
	}
	if strings.HasPrefix(s, "%") {
		s = " " + s // ... and the previous one end with '<'
	}
	// a '<' at the very end could join a following tag's '%'... tags start with "<%", so "<" + "<%" is fine
	g.cur.write(s)
}

func (g *gen) nl() {
	if g.pct("nl", 80) {
		g.cur.write("\n")
	}
}

// dataAllowed: may this expression read context data? Always, except in a
// mostly-literal program outside its data zones.
func (g *gen) dataAllowed() bool {
	if !g.litOnly {
		return true
	}
	for _, c := range g.ctx {
		if g.dataZones[c] {
			return true
		}
	}
	return false
}

// scopeSnippet writes, at the top level of the main template, a fixed construct in which plush creates sibling or
// private scopes, with sibobs(key) calls whose observations are known in advance (Program.ScopeExpect, in call
// order): a scope never sees what was Set on a sibling, on a helper's private scope, or in an earlier activation.
func (g *gen) scopeSnippet() {
	g.feat("scope_snippet")
	exp := func(xs ...string) { g.p.ScopeExpect = append(g.p.ScopeExpect, xs...) }
	switch g.intn("scopesnippetkind", 0, 5) {
	case 0:
		// one stored block, run twice: data handed to the first run is not there in the second
		n := g.fresh("sibc")
		g.cur.write(`<% contentFor("` + n + `") { %><%= sibobs("sibk") %><% } %><%= contentOf("` + n + `", {"sibk": 1}) %><%= contentOf("` + n + `") %>`)
		exp("1", "nil")
	case 1:
		// a let inside the stored block does not survive into its next run
		n := g.fresh("sibc")
		g.cur.write(`<% contentFor("` + n + `") { %><%= sibobs("siblet") %><% let siblet = 2 %><% } %><%= contentOf("` + n + `") %><%= contentOf("` + n + `") %><%= sibobs("siblet") %>`)
		exp("nil", "nil", "nil")
	case 2:
		// one partial, rendered twice
		n := g.fresh("sibp") + ".html"
		g.p.Partials[n] = `<%= sibobs("sibk") %><% let sibpl = 3 %>`
		g.cur.write(`<%= partial("` + n + `", {"sibk": 1}) %><%= partial("` + n + `") %><%= sibobs("sibpl") %>`)
		exp("1", "nil", "nil")
	case 3:
		// a block helper that runs its block in a private child scope: inside the block the private binding is
		// visible, after the helper has returned it is not, and a let after it lands where lets land
		g.cur.write(`<%= pbn() { %><%= sibobs("sibk") %><% } %><%= sibobs("sibk") %><% let sibafter = 4 %><%= sibobs("sibafter") %>`)
		exp("1", "nil", "4")
	case 4:
		// a stored block run from inside a loop: afterwards the loop's own bindings are still the current ones
		n := g.fresh("sibc")
		g.cur.write(`<% contentFor("` + n + `") { %>x<% } %><%= for (sibv) in [1, 2] { %><%= contentOf("` + n + `") %><%= sibobs("sibv") %><% } %><%= sibobs("sibv") %>`)
		exp("1", "2", "nil")
	default:
		// a function body: its lets and parameters are gone after the call, each call starts clean
		f := g.fresh("sibf")
		g.cur.write(`<% let ` + f + ` = fn(sibarg) { sibobs("sibl")
 let sibl = sibarg
 return sibobs("sibl") } %><%= ` + f + `(5) %><%= ` + f + `(6) %><%= sibobs("sibl") %><%= sibobs("sibarg") %>`)
		exp("nil", "5", "nil", "6", "nil", "nil")
	}
	g.nl()
}

func (g *gen) curCtx() string {
	if len(g.ctx) == 0 {
		return "top"
	}
	return g.ctx[len(g.ctx)-1]
}

// body generates a nested list of pieces labelled with the kind of body it is.
func (g *gen) body(kind string, depth, max int) {
	g.ctx = append(g.ctx, kind)
	g.pieces(depth, max)
	g.ctx = g.ctx[:len(g.ctx)-1]
}

func (g *gen) pushScope() int { return len(g.scope) }
func (g *gen) popScope(n int) { g.scope = g.scope[:n] }

func (g *gen) pieces(depth, max int) {
	g.nest++
	n := g.size("npieces", 1, max)
	for i := 0; i < n; i++ {
		g.piece(depth)
	}
	g.nest--
}

func (g *gen) outTag() string {
	if g.pct("outtag", 85) {
		return "<%="
	}
	return "<%"
}

func (g *gen) piece(depth int) {
	g.text()
	if g.o.failNested && g.p.Failing == "" && (g.nest > 0 || g.cur.name != "") && g.pct("failnested", 25) {
		g.failingPiece()
		return
	}
	if g.o.probes && g.pct("parenless", 3) {
		// DORMANT probe: a zero-argument method referenced WITHOUT parentheses in an output tag. plush does not
		// call it today (the reference renders as nothing); a change that starts calling such methods makes it
		// a fault point like any other (fault points are the invocations that actually happen)
		for i, id := range []int{9101, 9102, 9103, 9104} {
			if g.p.Sites[id] == nil {
				g.feat("dormant_probe_parenless_method")
				g.frames = 0
				st := &Site{ID: id, Kind: pkMethod, Tmpl: g.cur.name, Class: "output:method-reference-without-call", ElseIf: g.elseIf, Frames: g.frames, Want: kStr, Late: g.late, Ctx: g.curCtx()}
				g.p.Sites[id] = st
				g.pending = append(g.pending, st)
				g.siteLog = append(g.siteLog, st)
				g.tag("<%=", fmt.Sprintf("vobj.Tok%d", i+1), "%>")
				return
			}
		}
	}
	if g.o.toleratedOnly && g.o.probes && g.pct("assignundeclared", 3) {
		// an assignment to a name nobody declared is an unknown identifier, tolerated by `==`; its right-hand side
		// is evaluated first, and a failure there is not an unknown identifier
		g.feat("assignment_to_undeclared_name_in_tolerant_frame")
		g.frames = 0
		g.tag("<%=", "("+g.fresh("und")+" = "+g.maybeProbe("n1", kInt, "assign-value", true)+") == nil", "%>")
		return
	}
	if g.o.probes && g.nest == 0 && g.cur.name == "" && g.inFn == 0 && g.pct("toplevelreturn", 3) {
		// an explicit return at top level: its value is written and the template goes on
		g.feat("top_level_return")
		g.frames = 0
		g.tag("<%", "return "+g.maybeProbe(g.rawExpr(kInt, 1, "return-value"), kInt, "return-value", true), "%>")
		return
	}
	if g.o.toleratedOnly && g.o.probes && g.nest > 0 && g.cur.name == "" && g.pct("toleratednested", 8) {
		g.tolerantPiece(depth) // tolerated unknown identifiers inside bodies, with probes after them in the same statement
		return
	}
	if g.o.splitTags && g.inFn == 0 && g.pct("multistmt", 6) {
		g.multiStmtTagPiece(depth)
		return
	}
	if g.o.ctxProbes && g.nest == 0 && g.cur.name == "" && g.inFor == 0 && g.inFn == 0 && len(g.p.ScopeExpect) < 8 && g.pct("scopesnippet", 12) {
		g.scopeSnippet()
		return
	}
	if g.o.ctxProbes && g.pct("ctxprobe", 25) {
		g.frames = 0
		if g.pct("detached", 30) {
			// a block helper that runs its block with a context of its OWN (a root that is not related to the
			// render's scopes); the block only reads what that root carries
			g.feat("ctx_detached_root_block")
			g.tag("<%=", fmt.Sprintf("pbd(%d) {", g.intn("pbdval", 1, 9)), "%>")
			g.cur.write("D")
			g.tag("<%=", "bw + 1", "%>")
			g.cur.write("E")
			g.tag("<%", "}", "%>")
		} else {
			// a helper that keeps the context it is handed (whatever scope plush is in right here)
			g.feat("ctx_retaining_probe")
			g.tag("<%=", "ck()", "%>")
		}
		return
	}
	choice := g.intn("piece", 0, 23)
	if depth <= 0 && choice >= 6 && choice <= 17 {
		choice = choice % 6
	}
	switch choice {
	case 0, 1, 2:
		g.feat("output_tag")
		g.frames = 0
		if fs := append(g.funcs(kInt), g.funcs(kStr)...); len(fs) > 0 && g.pct("callfn", 50) {
			g.tag("<%=", g.callUser(fs[g.intn("fn", 0, len(fs)-1)], 1), "%>")
			break
		}
		g.tag("<%=", g.expr(kAny, 2, "output"), "%>")
	case 3:
		if g.pct("arrayplus", 8) {
			// `array + value` on a slice of the caller's that has spare capacity (the result is not used: plush
			// hands back something only `let` accepts)
			g.feat("array_plus_on_caller_slice_with_spare_capacity")
			g.frames = 0
			g.tag("<%", "let "+g.fresh("ap")+" = xcap + "+g.operand(kInt, 1, "infix-right:+"), "%>")
			break
		}
		g.feat("let")
		k := []kind{kInt, kStr, kBool}[g.intn("letkind", 0, 2)]
		name := g.fresh("v")
		g.frames = 0
		g.tag("<%", "let "+name+" = "+g.expr(k, 2, "let-value"), "%>")
		g.scope = append(g.scope, variable{name: name, k: k})
	case 4:
		vs := append(append(g.vars(kInt), g.vars(kStr)...), g.vars(kBool)...)
		if g.dataAllowed() && g.pct("assigndata", 25) {
			// assignment to a name that comes from the CALLER's data (a scalar: re-binding it is not mutating shared
			// data; it must stay a matter of this execution's own scopes, at top level, in loops and in function bodies)
			g.feat("assign_to_context_variable")
			g.frames = 0
			if g.inFn == 0 && g.pct("assigndatainfn", 35) {
				// ... inside the body of a user function defined and called on the spot
				g.feat("assign_to_context_variable_in_function_body")
				f := g.fresh("af")
				which := g.intn("assigndatafn", 0, 1)
				if which == 0 {
					g.tag("<%", "let "+f+" = fn() { s2 = s2 + \"?\" }", "%>")
				} else {
					g.tag("<%", "let "+f+" = fn(d) { if (d > 0) { n2 = n2 + d } }", "%>")
				}
				g.tag("<%", []string{f + "()", f + "(2)"}[which], "%>")
				g.tag("<%=", []string{"s2", "n2"}[which], "%>")
				break
			}
			switch g.intn("assigndatawhich", 0, 2) {
			case 0:
				g.tag("<%", "n1 = n1 + "+g.operand(kInt, 1, "infix-right:+"), "%>")
			case 1:
				g.tag("<%", "s2 = s2 + \"!\"", "%>")
			default:
				g.tag("<%", "b0 = !b0", "%>")
			}
			g.tag("<%=", []string{"n1", "s2", "b0"}[g.intn("assigndatashow", 0, 2)], "%>")
			break
		}
		if len(vs) == 0 {
			g.tag("<%=", g.expr(kStr, 1, "output"), "%>")
			break
		}
		g.feat("assign")
		v := vs[g.intn("asg", 0, len(vs)-1)]
		g.frames = 0
		g.tag("<%", v.name+" = "+g.expr(v.k, 2, "assign-value"), "%>")
	case 5:
		g.feat("builtin_misc")
		g.frames = 0
		switch g.intn("misc", 0, 10) {
		case 7:
			g.feat("inspect_debug")
			g.tag("<%=", []string{"inspect", "debug"}[g.intn("insp", 0, 1)]+"("+g.hashLit(2, false)+")", "%>")
		case 8:
			g.feat("inspect_debug")
			g.tag("<%=", []string{"inspect", "debug"}[g.intn("insp", 0, 1)]+"("+[]string{"mi", "m1", "xs", "ss", "one"}[g.intn("inspv", 0, 4)]+")", "%>")
		case 9:
			g.feat("inspect_debug")
			g.tag("<%=", "inspect("+g.expr(kArr, 1, "go-helper-arg")+")", "%>")
		case 10:
			g.feat("group_by")
			e := g.fresh("e")
			g.tag("<%=", "for ("+e+") in groupBy("+fmt.Sprint(g.intn("gsz", 1, 3))+", "+g.maybeProbe("xs", kArr, "go-helper-arg", false)+") {", "%>")
			g.tag("<%=", "len("+e+")", "%>")
			g.tag("<%", "}", "%>")
		case 4:
			// one instant, several zones, by value and through a pointer
			g.tag("<%=", []string{"tm", "tm", "tm2", "tm3", "tmp"}[g.intn("tmwhich", 0, 4)], "%>")
			if g.pct("tmtwice", 30) {
				g.feat("same_instant_two_zones")
				g.tag("<%=", []string{"tm2", "tm3", "tm"}[g.intn("tmwhich2", 0, 2)], "%>")
			}
			if g.nest == 0 && g.cur.name == "" && g.pct("timefmt", 30) {
				// a time printed before and after the format is rebound
				g.feat("print_then_mutate")
				g.tag("<%", `let TIME_FORMAT = "2006-01"`, "%>")
				g.tag("<%=", "tm", "%>")
			}
		case 5:
			g.tag("<%=", "stg", "%>")
		case 6:
			g.tag("<%=", "htm", "%>")
		case 0:
			g.tag("<%=", "raw("+g.expr(kStr, 1, "go-helper-arg")+")", "%>")
		case 1:
			g.tag("<%=", "toJSON("+g.expr(kHash, 1, "go-helper-arg")+")", "%>")
		case 2:
			g.tag("<%=", "toJSON("+g.expr(kArr, 1, "go-helper-arg")+")", "%>")
		default:
			g.tag("<%=", "len("+g.expr(kArr, 1, "go-helper-arg")+")", "%>")
		}
	case 6, 7:
		g.ifPiece(depth)
	case 8, 9:
		g.forPiece(depth)
	case 10:
		g.fnPiece(depth)
	case 11:
		if g.inFor == 0 && g.inFn == 0 && g.pct("ittwice", 15) {
			g.iteratorTwicePiece()
			break
		}
		g.arrayPiece(depth)
	case 12:
		g.hashPiece(depth)
	case 13:
		g.blockHelperPiece(depth)
	case 14:
		g.builtinBlockPiece(depth)
	case 15:
		g.contentPiece(depth)
	case 16, 17:
		if g.o.noPartials || g.pdepth >= 3 {
			g.ifPiece(depth)
		} else {
			g.partialPiece(depth)
		}
	case 18:
		if g.pct("bigpiece", 20) {
			g.bigPiece()
		} else if g.o.noise {
			g.noisePiece()
		} else {
			g.tag("<%=", g.expr(kStr, 1, "output"), "%>")
		}
	case 19:
		if g.o.probes {
			g.feat("probe_err_only")
			g.frames = 0
			s := g.newSite(pkErr, "output", kAny)
			g.tag(g.outTag(), fmt.Sprintf("pe(%d)", s.ID), "%>")
		} else {
			g.tag("<%=", g.expr(kInt, 1, "output"), "%>")
		}
	case 20:
		if g.o.tolerant {
			g.tolerantPiece(depth)
		} else {
			g.tag("<%=", g.expr(kBool, 2, "output"), "%>")
		}
	case 21:
		if g.o.mapRegions && g.pct("mapmut", 25) {
			g.mapMutatePiece()
		} else if g.o.mapRegions {
			g.mapForPiece(depth)
		} else {
			g.forPiece(depth)
		}
	default:
		g.feat("output_tag")
		g.frames = 0
		g.tag("<%=", g.expr(kAny, 3, "output"), "%>")
	}
	g.nl()
}

// longElseIfPiece: a chain of many else-if branches with small bodies, mostly false conditions, and an else
// (lengths around powers of two: slices of branches with and without spare capacity)
func (g *gen) longElseIfPiece() {
	g.feat("long_else_if_chain")
	n := []int{3, 4, 5, 6, 7, 9}[g.intn("nelseiflong", 0, 5)]
	taken := g.intn("takenbranch", 0, n+1) // 0: the if, 1..n: that else-if, n+1: the else
	cond := func(i int) string {
		if i == taken {
			return []string{"n1 == n1", "b1", "n2 > 0"}[g.intn("truecond", 0, 2)]
		}
		return []string{"n1 == 99", "b0", "n2 < 0", "s1 == \"no\""}[g.intn("falsecond", 0, 3)]
	}
	g.frames = 0
	g.tag(g.outTag(), "if ("+cond(0)+") {", "%>")
	g.cur.write("branch0")
	for i := 1; i <= n; i++ {
		g.tag("<%", "} else if ("+cond(i)+") {", "%>")
		g.cur.write(fmt.Sprintf("branch%d", i))
		if g.pct("elseifnl", 30) {
			g.cur.write("\n")
		}
	}
	if g.pct("longelse", 80) {
		g.tag("<%", "} else {", "%>")
		g.cur.write("otherwise")
		g.tag("<%=", "n1", "%>")
	}
	g.tag("<%", "}", "%>")
}

func (g *gen) ifPiece(depth int) {
	if g.pct("longelseif", 8) {
		g.longElseIfPiece()
		return
	}
	g.feat("if")
	open := g.outTag()
	g.frames = 0
	g.tag(open, "if ("+g.expr(kBool, 2, "if-condition")+") {", "%>")
	g.nl()
	sc := g.pushScope()
	g.body("if-body", depth-1, 2)
	g.popScope(sc)
	nei := g.size("nelseif", 0, 2)
	for i := 0; i < nei; i++ {
		g.feat("else_if")
		g.frames = 0
		g.elseIf = true
		cond := g.expr(kBool, 1, "else-if-condition")
		g.elseIf = false
		g.tag("<%", "} else if ("+cond+") {", "%>")
		g.nl()
		sc := g.pushScope()
		g.body("else-if-body", depth-1, 2)
		g.popScope(sc)
	}
	if g.pct("else", 50) {
		g.feat("else")
		g.tag("<%", "} else {", "%>")
		g.nl()
		sc := g.pushScope()
		g.body("else-body", depth-1, 2)
		g.popScope(sc)
	}
	g.tag("<%", "}", "%>")
}

func (g *gen) forPiece(depth int) {
	g.feat("for")
	open := g.outTag()
	iv, vv := g.fresh("i"), g.fresh("e")
	var iter string
	var ek kind
	g.frames = 0
	switch g.intn("iter", 0, 8) {
	case 0:
		iter, ek = g.maybeProbe("xs", kArr, "for-iterable", false), kInt
	case 1:
		iter, ek = g.maybeProbe("ss", kArr, "for-iterable", false), kStr
	case 2:
		g.feat("for_array_literal")
		iter, ek = "["+g.expr(kInt, 1, "array-element")+", "+g.expr(kInt, 1, "array-element")+"]", kInt
	case 3:
		g.feat("for_iterator")
		// bounds are small literals (possibly behind a probe): a data-dependent bound could make the loop astronomically long
		iter, ek = "range("+g.maybeProbe(fmt.Sprint(g.intn("lo", 0, 3)), kInt, "go-helper-arg", false)+", "+fmt.Sprint(g.intn("hi", 0, 14))+")", kInt
	case 4:
		g.feat("for_iterator")
		iter, ek = "until("+fmt.Sprint(g.intn("hi", 0, 3))+")", kInt
	case 5:
		g.feat("for_iterator")
		iter, ek = "between(0, "+fmt.Sprint(g.intn("hi", 0, 4))+")", kInt
	case 6:
		if g.pct("closingiter", 50) {
			// a caller-supplied Iterator that also has a Close() error method
			g.feat("for_iterator_with_close_method")
			iter, ek = "citer()", kInt
		} else {
			iter, ek = "obj.Tags", kStr
		}
	case 7:
		g.feat("for_single_map")
		iter, ek = "one", kInt // single-entry Go map: no order to vary
		iv = g.fresh("k")
		g.tag(open, "for ("+iv+", "+vv+") in "+iter+" {", "%>")
		g.nl()
		sc := g.pushScope()
		g.scope = append(g.scope, variable{name: iv, k: kStr}, variable{name: vv, k: ek})
		g.inFor++
		g.body("for-body", depth-1, 2)
		g.inFor--
		g.popScope(sc)
		g.tag("<%", "}", "%>")
		return
	default:
		iter, ek = g.maybeProbe("obj.Nums", kArr, "for-iterable", false), kInt
	}
	g.tag(open, "for ("+iv+", "+vv+") in "+iter+" {", "%>")
	g.nl()
	sc := g.pushScope()
	g.scope = append(g.scope, variable{name: iv, k: kInt}, variable{name: vv, k: ek})
	g.inFor++
	if g.pct("loopctl", 25) {
		g.feat("break_continue")
		kw := []string{"break", "continue"}[g.intn("kw", 0, 1)]
		g.frames = 0
		g.tag("<%", "if ("+iv+" == "+fmt.Sprint(g.intn("at", 0, 2))+") {", "%>")
		g.tag("<%", kw, "%>")
		g.tag("<%", "}", "%>")
		g.nl()
	}
	g.body("for-body", depth-1, 2)
	g.inFor--
	g.popScope(sc)
	g.tag("<%", "}", "%>")
}

// mapForPiece: for over a multi-entry Go map inside region markers, one
// delimited item per iteration, pure body (DESIGN §5.3 licensed variation).
func (g *gen) mapForPiece(depth int) {
	g.feat("for_map_region")
	g.p.MapRegions++
	kv, vv := g.fresh("k"), g.fresh("e")
	g.cur.write("«R")
	g.tag("<%=", "for ("+kv+", "+vv+") in mi {", "%>")
	g.cur.write("«I")
	sc := g.pushScope()
	g.scope = append(g.scope, variable{name: kv, k: kStr}, variable{name: vv, k: kInt})
	g.frames = 0
	saveProbes := g.o.probes
	if g.o.pureMapBody {
		g.o.probes = false
	}
	g.tag("<%=", kv+" + \"=\" + ("+g.expr(kInt, 1, "for-body")+" + "+vv+")", "%>")
	g.o.probes = saveProbes
	g.popScope(sc)
	g.cur.write("I»")
	g.tag("<%", "}", "%>")
	g.cur.write("R»")
}

// mapMutatePiece: a for loop over a local hash whose body inserts a key into
// that hash. Which entries exist when the loop starts is fixed, so the set of
// visited entries must be the same on every execution (only the order is
// licensed to vary).
func (g *gen) mapMutatePiece() {
	g.feat("for_map_mutating_body")
	g.p.MapRegions++
	h := g.fresh("h")
	kv, vv := g.fresh("k"), g.fresh("e")
	g.tag("<%", "let "+h+` = {"p": 1, "q": 2, "r": 3, "s": 4}`, "%>")
	g.nl()
	g.cur.write("«R")
	g.tag("<%=", "for ("+kv+", "+vv+") in "+h+" {", "%>")
	g.tag("<%", h+`["seen"] = 9`, "%>")
	g.cur.write("«I")
	g.tag("<%=", kv, "%>")
	g.cur.write("I»")
	g.tag("<%", "}", "%>")
	g.cur.write("R»")
}

func (g *gen) fnPiece(depth int) {
	g.feat("user_fn_def")
	name := g.fresh("f")
	sc := g.pushScope()
	g.inFn++
	siteStart := len(g.siteLog)
	defer func() {
		// attach the body's sites to every function variable defined here
		for i := range g.scope {
			if g.scope[i].fn != nil && g.scope[i].tmpl == "\x00new" {
				g.scope[i].tmpl = g.cur.name
				g.scope[i].sites = append([]*Site{}, g.siteLog[siteStart:]...)
			}
		}
	}()
	switch g.intn("fnform", 0, 5) {
	case 0, 1: // (int, int) -> int, single tag
		a, b := g.fresh("a"), g.fresh("a")
		g.scope = append(g.scope, variable{name: a, k: kInt}, variable{name: b, k: kInt})
		g.frames = 0
		body := ""
		if g.pct("fnif", 50) {
			g.feat("user_fn_early_return")
			body = "if (" + g.expr(kBool, 1, "if-condition") + ") { return " + g.expr(kInt, 1, "return-value") + " } "
		}
		body += "return " + g.expr(kInt, 2, "return-value")
		g.popScope(sc)
		g.tag("<%", "let "+name+" = fn("+a+", "+b+") { "+body+" }", "%>")
		g.scope = append(g.scope, variable{name: name, tmpl: "\x00new", fn: &fnSig{params: []kind{kInt, kInt}, ret: kInt}})
	case 5: // no parameters
		g.feat("user_fn_no_params")
		g.frames = 0
		body := "return " + g.expr(kInt, 2, "return-value")
		g.popScope(sc)
		g.tag("<%", "let "+name+" = fn() { "+body+" }", "%>")
		g.scope = append(g.scope, variable{name: name, tmpl: "\x00new", fn: &fnSig{params: nil, ret: kInt}})
	case 2: // str -> str
		a := g.fresh("a")
		g.scope = append(g.scope, variable{name: a, k: kStr})
		g.frames = 0
		body := "return " + g.expr(kStr, 2, "return-value")
		g.popScope(sc)
		g.tag("<%", "let "+name+" = fn("+a+") { "+body+" }", "%>")
		g.scope = append(g.scope, variable{name: name, tmpl: "\x00new", fn: &fnSig{params: []kind{kStr}, ret: kStr}})
	case 3: // recursion (depth <= 2) and function passed as argument
		g.feat("user_fn_recursive")
		a := g.fresh("a")
		g.scope = append(g.scope, variable{name: a, k: kInt})
		g.frames = 0
		step := g.expr(kInt, 1, "return-value")
		g.popScope(sc)
		g.tag("<%", "let "+name+" = fn("+a+") { if ("+a+" < 1) { return "+step+" } return "+name+"("+a+" - 1) }", "%>")
		g.nl()
		g.frames = 0
		g.tag("<%=", name+"("+fmt.Sprint(g.intn("rec", 0, 2))+")", "%>")
		if fs := g.funcs(kInt); len(fs) > 0 && len(fs[0].fn.params) == 2 {
			g.feat("user_fn_as_arg")
			g.useFn(fs[0])
			ap := g.fresh("f")
			g.nl()
			g.tag("<%", "let "+ap+" = fn(ff, x) { return ff(x, 1) }", "%>")
			g.nl()
			g.frames = 0
			g.tag("<%=", ap+"("+fs[0].name+", "+g.expr(kInt, 1, "user-fn-arg")+")", "%>")
		}
	default: // multi-tag body, called in output position
		g.feat("user_fn_multitag")
		a := g.fresh("a")
		g.tag("<%", "let "+name+" = fn("+a+") {", "%>")
		g.nl()
		g.scope = append(g.scope, variable{name: a, k: kStr})
		g.body("fn-body", depth-1, 2)
		g.popScope(sc)
		g.tag("<%", "}", "%>")
		g.nl()
		g.frames = 0
		g.tag("<%=", name+"("+g.expr(kStr, 1, "user-fn-arg")+")", "%>")
	}
	g.inFn--
}

// multiStmtTagPiece writes ONE code tag with several statements, each on a line of its own, with `#` line comments
// between them. For a statement that begins on a later line than its tag, C15's wording ("the line on which the tag
// containing the failing statement begins") and plush's behaviour (the statement's own line) differ; both readings
// are accepted for such sites (Site.AltLine) — but nothing else is: not the line of a comment, of another
// statement, or of the closing delimiter.
func (g *gen) multiStmtTagPiece(depth int) {
	g.feat("multi_statement_tag")
	tagLine := g.cur.line
	g.cur.write("<%" + []string{"", "", " ", "\t "}[g.intn("opentrail", 0, 3)] + "\n")
	n := g.size("nstmts", 2, 4)
	for i := 0; i < n; i++ {
		if g.pct("stmtcomment", 50) {
			g.cur.write([]string{"  # a comment\n", "# another one, with a \"quote\" and a %\n", "  #\n"}[g.intn("stmtcommentkind", 0, 2)])
		}
		if g.pct("stmtblank", 35) {
			g.cur.write([]string{"\n", "   \n", "\t\n\n", " \r\n"}[g.intn("stmtblankkind", 0, 3)])
		}
		g.frames = 0
		g.pending = g.pending[:0]
		var stmt string
		switch g.intn("stmtkind", 0, 2) {
		case 0:
			name := g.fresh("mv")
			stmt = "let " + name + " = " + g.expr(kInt, 1, "let-value")
			g.scope = append(g.scope, variable{name: name, k: kInt})
		case 1:
			name := g.fresh("mv")
			stmt = "let " + name + " = " + g.expr(kStr, 1, "let-value")
			g.scope = append(g.scope, variable{name: name, k: kStr})
		default:
			if vs := g.vars(kInt); len(vs) > 0 {
				stmt = vs[g.intn("asg", 0, len(vs)-1)].name + " = " + g.expr(kInt, 1, "assign-value")
			} else {
				name := g.fresh("mv")
				stmt = "let " + name + " = " + g.expr(kBool, 1, "let-value")
				g.scope = append(g.scope, variable{name: name, k: kBool})
			}
		}
		stmtLine := g.cur.line
		for _, s := range g.pending {
			s.Line = tagLine
			if g.cur.top != 0 {
				s.TopLine = g.cur.top
			} else {
				s.TopLine = tagLine
				s.AltLine = stmtLine
			}
		}
		g.pending = g.pending[:0]
		g.cur.write("  " + stmt + []string{"", "", " ", " \t", "   ", ";", " ;"}[g.intn("stmttrail", 0, 6)] + "\n")
	}
	g.cur.write("%>")
}

// iteratorTwicePiece: an iterator value kept in a variable and looped over twice (the second loop finds it exhausted)
func (g *gen) iteratorTwicePiece() {
	g.feat("iterator_variable_looped_twice")
	r, i := g.fresh("it"), g.fresh("e")
	src := []string{"range(1, 3)", "until(3)", "between(0, 4)"}[g.intn("itsrc", 0, 2)]
	g.frames = 0
	g.tag("<%", "let "+r+" = "+src, "%>")
	for n := 0; n < 2; n++ {
		g.tag("<%=", "for ("+i+") in "+r+" {", "%>")
		g.tag("<%=", i, "%>")
		g.cur.write(",")
		g.tag("<%", "}", "%>")
		g.cur.write("|")
	}
	// and a nested pair of fresh iterators afterwards
	j := g.fresh("e")
	g.tag("<%=", "for ("+i+") in range(1, 2) {", "%>")
	g.tag("<%=", "for ("+j+") in range(1, 3) {", "%>")
	g.tag("<%=", i+" * 10 + "+j, "%>")
	g.cur.write(" ")
	g.tag("<%", "}", "%>")
	g.tag("<%", "}", "%>")
}

func (g *gen) arrayPiece(depth int) {
	g.feat("array_var")
	name := g.fresh("arr")
	g.frames = 0
	g.tag("<%", "let "+name+" = ["+g.expr(kInt, 1, "array-element")+", "+g.expr(kInt, 1, "array-element")+", "+g.expr(kInt, 1, "array-element")+"]", "%>")
	g.scope = append(g.scope, variable{name: name, k: kArr, elem: kInt, loc: true})
	g.nl()
	printed := g.pct("printarr", 35)
	if printed {
		// the array itself is printed (not a copy of it), then mutated, then printed again: what an output
		// tag emits is the value at the time the tag is evaluated
		g.feat("print_then_mutate")
		g.frames = 0
		g.tag("<%=", name, "%>")
		g.nl()
	}
	if printed || g.pct("idxasg", 60) {
		g.feat("index_assign")
		g.frames = 0
		g.tag("<%", name+"["+fmt.Sprint(g.intn("ix", 0, 2))+"] = "+g.expr(kInt, 2, "index-assign-value"), "%>")
		g.nl()
	}
	if printed {
		g.frames = 0
		g.tag("<%=", name, "%>")
		g.nl()
	}
	g.frames = 0
	g.tag("<%=", name+"["+g.maybeProbe(fmt.Sprint(g.intn("ix", 0, 2)), kInt, "index", false)+"] + "+g.operand(kInt, 1, "infix-right:+"), "%>")
	if g.pct("arrjson", 30) {
		g.nl()
		g.tag("<%=", "toJSON("+name+")", "%>")
	}
}

func (g *gen) hashPiece(depth int) {
	g.feat("hash_var")
	name := g.fresh("h")
	g.frames = 0
	g.tag("<%", "let "+name+" = "+g.hashLit(2, g.o.sideEffects || g.pct("dup", 30)), "%>")
	g.nl()
	if g.pct("hasg", 50) {
		g.feat("index_assign")
		g.frames = 0
		g.tag("<%", name+`["z"] = `+g.expr(kAny, 2, "index-assign-value"), "%>")
		g.nl()
	}
	g.frames = 0
	g.tag("<%=", name+`["a"]`, "%>")
	g.nl()
	g.tag("<%=", "toJSON("+name+")", "%>")
}

func (g *gen) blockHelperPiece(depth int) {
	if !g.o.probes {
		// still exercise a custom block helper, with an id nobody fails
		g.feat("block_helper")
		g.tag("<%=", "pb(0) {", "%>")
		g.nl()
		sc := g.pushScope()
		g.body("block-helper-block", depth-1, 2)
		g.popScope(sc)
		g.tag("<%", "}", "%>")
		return
	}
	g.feat("block_helper")
	g.frames = 0
	if g.pct("blockwith", 35) {
		// block run with its own child context carrying extra data
		g.feat("block_helper_blockwith")
		bw := g.expr(kInt, 1, "hash-value")
		s := g.newSite(pkBlock, "block-helper-call", kAny)
		g.tag(g.outTag(), fmt.Sprintf("pbw(%d, {\"bw\": %s}) {", s.ID, bw), "%>")
		g.nl()
		sc := g.pushScope()
		g.scope = append(g.scope, variable{name: "bw", k: kInt})
		g.body("block-helper-block", depth-1, 2)
		g.popScope(sc)
		g.tag("<%", "}", "%>")
		return
	}
	if g.pct("blockmethod", 12) {
		// a Go METHOD that takes the helper context and runs its block, reached through an index or call chain
		g.feat("block_method_through_chain")
		s := g.newSite(pkBlock, "block-method-call", kAny)
		// (not objs[0].Wrap: while an indexed callee is evaluated plush rebinds the indexed NAME to the element, so a
		// block that reads objs would fail on the pinned tree — scope hygiene, C09's subject)
		recv := []string{"obj.Self()", "obj", "obj.Self().Self()"}[g.intn("blockrecv", 0, 2)]
		g.tag(g.outTag(), fmt.Sprintf("%s.Wrap(%d) {", recv, s.ID), "%>")
		g.nl()
		sc := g.pushScope()
		g.body("block-helper-block", depth-1, 2)
		g.popScope(sc)
		g.tag("<%", "}", "%>")
		return
	}
	if g.pct("blockcond", 15) {
		// the block helper call, block included, is the CONDITION of an if (or the operand of !)
		g.feat("block_helper_as_condition")
		s := g.newSite(pkBlock, "block-helper-call-as-condition", kAny)
		neg := ""
		if g.pct("blockcondneg", 40) {
			neg = "!"
		}
		g.tag("<%=", fmt.Sprintf("if (%spb(%d) {", neg, s.ID), "%>")
		g.nl()
		sc := g.pushScope()
		g.body("block-helper-block", depth-1, 2)
		g.popScope(sc)
		g.tag("<%", "}) {", "%>")
		g.cur.write("yes")
		g.tag("<%", "} else {", "%>")
		g.cur.write("no")
		g.tag("<%", "}", "%>")
		return
	}
	s := g.newSite(pkBlock, "block-helper-call", kAny)
	g.tag(g.outTag(), fmt.Sprintf("pb(%d) {", s.ID), "%>")
	g.nl()
	sc := g.pushScope()
	g.body("block-helper-block", depth-1, 2)
	g.popScope(sc)
	g.tag("<%", "}", "%>")
}

func (g *gen) builtinBlockPiece(depth int) {
	if g.o.probes && !g.o.noPartials && g.pdepth < 3 && g.pct("partialblock", 15) {
		// DORMANT: a block handed to partial(). plush ignores it today (the block is never evaluated, so probes
		// in it are never invoked); a change that starts rendering such blocks turns them into fault points
		g.feat("dormant_probe_block_of_partial")
		name := g.fresh("pb") + ".html"
		g.p.Partials[name] = "plain partial text"
		fs := &Site{Kind: pkFeeder, Tmpl: g.cur.name, Class: "partial", Name: name, Late: g.late, Ctx: g.curCtx()}
		g.p.FeederSites[name] = fs
		g.pending = append(g.pending, fs)
		g.siteLog = append(g.siteLog, fs)
		g.frames = 0
		g.tag("<%=", `partial("`+name+`") {`, "%>")
		g.nl()
		sc := g.pushScope()
		g.body("block-helper-block", depth-1, 2)
		g.popScope(sc)
		g.tag("<%", "}", "%>")
		return
	}
	g.feat("html_escape_block")
	g.frames = 0
	if g.pct("escapeboth", 40) {
		// a non-empty string AND a block
		g.feat("html_escape_string_and_block")
		g.tag("<%=", `htmlEscape("lit<") {`, "%>")
		g.nl()
		sc := g.pushScope()
		g.body("htmlEscape-block", depth-1, 2)
		g.popScope(sc)
		g.tag("<%", "}", "%>")
		return
	}
	g.tag("<%=", `htmlEscape("") {`, "%>")
	g.nl()
	sc := g.pushScope()
	g.body("htmlEscape-block", depth-1, 2)
	g.popScope(sc)
	g.tag("<%", "}", "%>")
}

func (g *gen) contentPiece(depth int) {
	if g.inFor > 0 || g.inFn > 0 || g.o.noContent {
		g.builtinBlockPiece(depth)
		return
	}
	switch g.intn("content", 0, 3) {
	case 0, 1:
		g.feat("content_for")
		name := cfPool[g.intn("cfname", 0, len(cfPool)-1)]
		g.cfDefined[name] = true
		g.tag("<%", `contentFor("`+name+`") {`, "%>")
		g.nl()
		sc := g.pushScope()
		wasLate := g.late
		g.late = true
		g.scope = append(g.scope, variable{name: "label", k: kStr})
		g.body("contentFor-block", depth-1, 2)
		g.late = wasLate
		g.popScope(sc)
		g.tag("<%", "}", "%>")
		g.nl()
		g.text()
		g.feat("content_of")
		g.frames = 0
		if g.pct("cofdefault", 30) {
			// contentOf of a DEFINED block, called with a default block as well
			g.feat("content_of_defined_with_default")
			g.tag("<%=", `contentOf("`+name+`", {"label": `+g.expr(kStr, 1, "hash-value")+"}) {", "%>")
			g.nl()
			sc := g.pushScope()
			g.body("contentOf-default-block", depth-1, 1)
			g.popScope(sc)
			g.tag("<%", "}", "%>")
		} else if g.pct("coframe", 35) {
			// the contentOf call sits in a frame that tolerates an UNKNOWN IDENTIFIER (condition, operand of
			// ! && || !=): a failure inside the stored block is not an unknown identifier of that frame
			g.feat("content_of_in_tolerant_frame")
			call := `contentOf("` + name + `", {"label": ` + g.expr(kStr, 1, "hash-value") + "})"
			switch g.intn("coframekind", 0, 4) {
			case 0:
				g.tag("<%=", "!"+call, "%>")
			case 1:
				g.tag("<%=", "if ("+call+") {", "%>")
				g.cur.write("Y")
				g.tag("<%", "} else {", "%>")
				g.cur.write("N")
				g.tag("<%", "}", "%>")
			case 2:
				g.tag("<%=", call+" && b1", "%>")
			case 3:
				g.tag("<%=", "b0 || "+call, "%>")
			default:
				g.tag("<%=", call+" != nil", "%>")
			}
		} else {
			g.tag("<%=", `contentOf("`+name+`", {"label": `+g.expr(kStr, 1, "hash-value")+"})", "%>")
		}
		if g.pct("again", 30) {
			g.nl()
			g.frames = 0
			g.tag("<%=", `contentOf("`+name+`", {"label": "again"})`, "%>")
		}
	default:
		g.feat("content_of_default")
		g.frames = 0
		// a name nothing in THIS program has defined (sibling programs may have:
		// a block registered anywhere but the execution's own context would leak in)
		undef := "nosuch"
		for _, n := range cfPool {
			if !g.cfDefined[n] && g.pct("cfundef", 60) {
				undef = n
				break
			}
		}
		g.tag("<%=", `contentOf("`+undef+`") {`, "%>")
		g.nl()
		sc := g.pushScope()
		g.body("contentOf-default-block", depth-1, 2)
		g.popScope(sc)
		g.tag("<%", "}", "%>")
	}
}

func (g *gen) partialPiece(depth int) {
	g.feat("partial")
	ext := []string{".html", ".js", "", ".html"}[g.intn("ext", 0, 3)]
	name := g.fresh("p") + ext
	if g.pct("oddname", 12) {
		// names are data: a percent sign, a space, a dash, a slash in them are nobody's format verbs
		g.feat("partial_odd_name")
		name = g.fresh("p") + []string{"%20x", "_50%_off", " sp", "-d/sub", "%w%v%s"}[g.intn("oddnamekind", 0, 4)] + ext
	}
	layout := ""
	if g.pct("layout", 30) {
		g.feat("layout")
		layout = g.fresh("l") + ".html"
		if g.pct("oddlayout", 12) {
			layout = g.fresh("l") + "%d%%.html"
		}
	}
	// the call, in the current template
	g.frames = 0
	data := `"pa": ` + g.expr(kInt, 1, "hash-value") + `, "ps": ` + g.expr(kStr, 1, "hash-value")
	if layout != "" {
		data += `, "layout": "` + layout + `"`
	}
	arg := "{" + data + "}"
	twice := false
	if g.pct("partialctxvar", 12) {
		// the data is a map the CALLER put into the context (the same Go map object every time the caller re-uses
		// its data): plush must treat it as read-only
		g.feat("partial_data_from_context_variable")
		cv := g.fresh("copts")
		m := map[string]interface{}{"pa": 40 + g.intn("ctxpa", 0, 9), "ps": "from-the-caller"}
		if layout != "" {
			m["layout"] = layout
		}
		if g.p.CtxMaps == nil {
			g.p.CtxMaps = map[string]map[string]interface{}{}
		}
		g.p.CtxMaps[cv] = m
		arg = cv
		twice = g.inFn == 0 && g.pct("partialtwice", 50)
	} else if g.inFn == 0 && g.pct("partialvar", 25) {
		// the data is a map held in a VARIABLE (not a literal evaluated afresh per call), and the same map object
		// reaches partial() twice: the partial and its layout must render the same both times
		g.feat("partial_data_from_variable")
		po := g.fresh("po")
		g.tag("<%", "let "+po+" = "+arg, "%>")
		g.nl()
		g.frames = 0
		arg = po
		twice = g.pct("partialtwice", 70)
	}
	fs := &Site{Kind: pkFeeder, Tmpl: g.cur.name, Class: "partial", Name: name, Late: g.late, Ctx: g.curCtx()}
	g.p.FeederSites[name] = fs
	g.pending = append(g.pending, fs)
	g.siteLog = append(g.siteLog, fs)
	if layout != "" {
		ls := &Site{Kind: pkFeeder, Tmpl: g.cur.name, Class: "layout", Name: layout, Late: g.late, Ctx: g.curCtx()}
		g.p.FeederSites[layout] = ls
		g.pending = append(g.pending, ls)
		g.siteLog = append(g.siteLog, ls)
	}
	tagLine := g.cur.line // the line on which the partial tag begins (the tag itself may be split across lines)
	if twice && g.o.splitTags {
		// both calls must begin on the same line (the sites inside the partial carry ONE outer line)
		save := g.o.splitTags
		g.o.splitTags = false
		g.tag("<%=", `partial("`+name+`", `+arg+`)`, "%>")
		g.tag("<%=", `partial("`+name+`", `+arg+`)`, "%>")
		g.o.splitTags = save
	} else {
		g.tag("<%=", `partial("`+name+`", `+arg+`)`, "%>")
		if twice {
			g.tag("<%=", `partial("`+name+`", `+arg+`)`, "%>")
		}
	}
	top := g.cur.top
	if top == 0 {
		top = tagLine
	}

	// the partial's text, in its own template
	saveCur, saveScope, savePending, saveFor, saveFn, saveLate := g.cur, g.scope, g.pending, g.inFor, g.inFn, g.late
	sub := func(tname string, isLayout bool) {
		g.cur = &tmpl{name: tname, line: 1, top: top}
		g.pending = nil
		// a partial sees the caller's context plus its data
		g.scope = append(append([]variable{}, saveScope...), variable{name: "pa", k: kInt}, variable{name: "ps", k: kStr})
		g.inFor, g.inFn = 0, 0
		g.pdepth++
		if isLayout {
			g.text()
			g.body("layout", 1, 2)
			g.tag("<%=", "yield", "%>")
			g.nl()
			g.body("layout", 1, 2)
		} else {
			g.body("partial", depth-1, 3)
		}
		g.text()
		g.pdepth--
		g.p.Partials[tname] = g.cur.sb.String()
	}
	sub(name, false)
	if layout != "" {
		sub(layout, true)
	}
	g.cur, g.scope, g.pending, g.inFor, g.inFn, g.late = saveCur, saveScope, savePending, saveFor, saveFn, saveLate
}

// bigPiece: sizes beyond the usual — long loops, long output, many lines,
// wide literals — for code paths that switch behaviour at a threshold.
func (g *gen) bigPiece() {
	g.feat("big")
	switch g.intn("big", 0, 7) {
	case 6, 7: // a slice / array literal with many elements and a trivial body
		v := g.fresh("e")
		src := "many"
		if g.pct("biglit", 50) {
			var parts []string
			for i, n := 0, []int{8, 9, 16, 40}[g.intn("bigel", 0, 3)]; i < n; i++ {
				parts = append(parts, fmt.Sprint(i))
			}
			src = "[" + strings.Join(parts, ", ") + "]"
		}
		g.frames = 0
		g.tag("<%=", "for ("+v+") in "+src+" {", "%>")
		g.cur.write("i")
		g.tag("<%=", v, "%>")
		g.cur.write(";")
		g.tag("<%", "}", "%>")
	case 0: // many iterations, long output
		v := g.fresh("e")
		g.frames = 0
		g.tag("<%=", "for ("+v+") in range(1, "+fmt.Sprint([]int{9, 17, 33, 70, 130}[g.intn("bign", 0, 4)])+") {", "%>")
		g.cur.write("item-")
		g.tag("<%=", v+" + "+g.operand(kInt, 1, "infix-right:+"), "%>")
		g.cur.write(";")
		g.tag("<%", "}", "%>")
	case 1: // > 4 KB of literal text on one line, then more lines
		g.cur.write(strings.Repeat("lorem ipsum ", []int{40, 400, 800}[g.intn("bigt", 0, 2)]) + "\n")
	case 2: // line numbers beyond 128 / 256 / 1000
		if g.o.noise {
			g.cur.write(strings.Repeat("\n", []int{3, 70, 130, 260, 1005}[g.intn("bigl", 0, 4)]))
		} else {
			g.cur.write("\n\n\n")
		}
	case 3: // wide array literal
		n := []int{5, 9, 17, 33}[g.intn("biga", 0, 3)]
		var parts []string
		for i := 0; i < n; i++ {
			parts = append(parts, g.maybeProbe(fmt.Sprint(i), kInt, "array-element", false))
		}
		g.frames = 0
		g.tag("<%=", "len(["+strings.Join(parts, ", ")+"])", "%>")
	case 4: // wide hash literal
		n := []int{5, 9, 17}[g.intn("bigh", 0, 2)]
		var parts []string
		for i := 0; i < n; i++ {
			parts = append(parts, fmt.Sprintf("%q: %s", fmt.Sprintf("k%02d", i), g.maybeProbe(fmt.Sprint(i), kInt, "hash-value", false)))
		}
		g.frames = 0
		g.tag("<%=", "toJSON({"+strings.Join(parts, ", ")+"})", "%>")
	default: // many small statements
		n := []int{12, 40, 90}[g.intn("bigs", 0, 2)]
		for i := 0; i < n; i++ {
			g.tag("<%=", fmt.Sprint(i%10), "%>")
			if i%7 == 6 {
				g.cur.write("\n")
			}
		}
	}
}

// noisePiece: material that moves line numbers but contains no probes.
func (g *gen) noisePiece() {
	g.feat("noise")
	switch g.intn("noise", 0, 27) {
	case 26: // a backslash as the last character of a line inside a double-quoted string; blanks before in-tag newlines
		g.cur.write("<% let " + g.fresh("ms") + " = \"line one \\\nline two\\\n\" %>\n<% let " + g.fresh("ms") + " = [1, \t\n 2 \n ] %>")
	case 27: // a block opened at the end of a line with trailing blanks, closed on a later line
		g.cur.write("<%= if (b1) { \t\n return \"kept\" \n } %>\n")
	case 24: // an identifier with a dash and a digit in it ('-' is a letter for plush) directly followed by a newline
		g.cur.write("<% let " + g.fresh("ms") + " = (zq-1\n == nil) %>\n<% let " + g.fresh("ms") + " = (zq-2-x9\n\n != 3) %>")
	case 25: // numbers and dotted paths directly followed by a newline
		g.cur.write("<% let " + g.fresh("ms") + " = [1,\n2.5\n, 3\n] %><% let " + g.fresh("ms") + " = (obj.Name\n == \"bot\") %>")
	case 21: // comment tags closed with "-%>" (legal today: the dash is comment text), followed by blanks / CRLF
		g.cur.write("<%# note -%> \t\nx<%# note2 -%>\r\n")
	case 22:
		g.cur.write("<%# -%>\n<%#- a -%>   \n\n")
	case 23: // dashes and percent signs next to tag delimiters in text
		g.cur.write("-%> - % > -<% let " + g.fresh("ms") + " = 1 %>-\n")
	case 15: // escaped quotes AFTER newlines inside a double-quoted string, several of them
		g.cur.write("<% let " + g.fresh("ms") + " = \"one\ntwo \\\" q1\nthree \\\" q2 \\\" q3\n\nfive\" %>")
	case 16: // back-quoted string with quotes, backslashes and a tag-like run inside
		g.cur.write("<% let " + g.fresh("ms") + " = `a \" b\n\\ c %> d\n<% e` %>")
	case 17: // adjacent strings with escaped quotes at their very start and end, over lines
		g.cur.write("<%= \"\\\"x\n\\\"\" + \"y\n\\\"z\" %>\n")
	case 18: // comment tag with tag-like text over lines (an unpaired double quote or back-quote inside a comment
		// tag makes Parse loop for ever on the pinned tree: C03's subject, observed, not generated)
		g.cur.write("<%# he said hi\n and left's\n < % > { ( %>after\n")
	case 19: // tabs, form feed, vertical tab, a lone CR (not a line break for plush) and NUL-free odd bytes
		g.cur.write("t\tt\f\v\rsame line\nnext\xc2\xa0nbsp\xe2\x80\xa8ls\n")
	case 20: // several string literals in one tag, each with newlines, and a hash over lines
		g.cur.write("<% let " + g.fresh("ms") + " = {\"k\n1\": \"v\n\\\"1\",\n \"k2\": `v\n2`} %>")
	case 12:
		g.cur.write("pre \\<% esc %>\npost \\<%= esc2 %>\n\n")
	case 13:
		g.cur.write("a\\\\b \\ c\n\\<%# esc %>\n")
	case 14:
		g.cur.write("<%# c1 %>\n<%# c2\n%>\n<% # c3\n%>\n")
	case 6:
		g.cur.write("escaped \\<%= not a tag %> text\nnext\n")
	case 7:
		g.cur.write("<% let " + g.fresh("ms") + " = \"quote \\\" inside\nand a newline\" %>")
	case 8:
		g.cur.write("<%=\n\n  \"split\"  \n%>")
	case 9:
		g.cur.write("<%\n  let " + g.fresh("ms") + " = 1\n%>\n")
	case 10:
		g.cur.write("<%# one %><%# two\n\n%>\n\t\n")
	case 11:
		g.cur.write("<%= [\n1,\n2\n] %>")
	case 0:
		g.cur.write("<% let " + g.fresh("ms") + " = \"first\nsecond\n\nfourth\" %>")
	case 1:
		g.cur.write("<% let " + g.fresh("ms") + " = `back\ntick\n` %>")
	case 2:
		g.cur.write("<%# a comment\nspanning\nlines %>")
	case 3:
		g.cur.write("<% # line comment\n%>\n")
	case 4:
		g.cur.write("<%= \"multi\nline\" + `x\ny` %>")
	default:
		g.cur.write("text\r\nwith\r\ncrlf\n\n\n")
	}
}

// tolerantPiece writes the never-bound identifier zz either in a position the
// property tolerates (counts as nil) or in one where the render must fail.
func (g *gen) tolerantPiece(depth int) {
	g.feat("tolerant")
	g.frames = 0
	if g.o.toleratedOnly && g.o.probes && g.inFn == 0 && g.pct("tolthroughfn", 25) {
		// the unknown identifier is RETURNED by a user function and meets the tolerant frame at the call (plush
		// tolerates that too today; whether it must is not decided here — what is checked is what comes after it in
		// the same statement: later failures must still name their own tag)
		g.feat("tolerant_through_user_function")
		f := g.fresh("tf")
		g.tag("<%", "let "+f+" = fn() { return zz }", "%>")
		g.nl()
		switch g.intn("tolfn", 0, 5) {
		case 0:
			g.tag("<%=", "if ("+f+"()) {", "%>")
			g.cur.write("*")
			g.tag("<%", "}", "%>")
		case 1:
			g.tag("<%", "let "+g.fresh("tv")+" = !"+f+"()", "%>")
		case 2:
			g.tag("<%=", f+"() == nil", "%>")
		case 3:
			// ... and something that can fail LATER IN THE SAME TAG
			g.frames = 0
			g.tag("<%=", "["+f+"() == nil, "+g.maybeProbe(g.rawExpr(kInt, 1, "array-element"), kInt, "array-element", true)+"]", "%>")
		case 4:
			g.frames = 0
			g.tag("<%=", "!"+f+"() && "+g.maybeProbe("b1", kBool, "infix-right:&&", true), "%>")
		default:
			g.frames = 0
			g.tag("<%=", "if ("+f+"()) { return 1 } else { return "+g.maybeProbe("n1", kInt, "return-value", true)+" }", "%>")
		}
		return
	}
	if g.nest > 0 || g.o.toleratedOnly || g.pct("tolerated", 50) {
		c := g.intn("tol", 0, 7)
		var cls, body string
		switch c {
		case 0:
			cls, body = "if-condition", "if (zz) { return 1 } else { return 2 }"
		case 1:
			cls, body = "prefix-operand:!", "!zz"
		case 2:
			cls, body = "infix-left:==", "zz == "+g.operand(kAny, 0, "infix-right:==")
		case 3:
			cls, body = "infix-right:!=", g.operand(kAny, 0, "infix-left:!=")+" != zz"
		case 4:
			cls, body = "infix-left:&&", "zz && "+g.operand(kBool, 0, "infix-right:&&")
		case 5:
			cls, body = "infix-right:||", g.operand(kBool, 0, "infix-left:||")+" || zz"
		case 6:
			cls, body = "else-if-condition", "if (false) { return 1 } else if (zz) { return 2 } else { return 3 }"
		default:
			cls, body = "infix-right:&&", g.operand(kBool, 0, "infix-left:&&")+" && zz"
		}
		g.p.Tolerant = append(g.p.Tolerant, TolerantUse{Tolerated: true, Class: cls, Line: g.cur.line})
		g.tag("<%=", body, "%>")
		return
	}
	c := g.intn("intol", 0, 6)
	var cls, body string
	switch c {
	case 0:
		cls, body = "output", "zz"
	case 1:
		cls, body = "infix-left:+", "zz + 1"
	case 2:
		cls, body = "go-helper-arg", "len(zz)"
	case 3:
		cls, body = "array-element", "[1, zz]"
	case 4:
		cls, body = "infix-right:<", "1 < zz"
	case 5:
		cls, body = "hash-value", `toJSON({"a": zz})`
	default:
		cls, body = "index", "xs[zz]"
	}
	g.p.Tolerant = append(g.p.Tolerant, TolerantUse{Tolerated: false, Class: cls, Line: g.cur.line})
	open := "<%="
	if cls == "let-value" {
		open = "<%"
	}
	g.tag(open, body, "%>")
}

// failingPiece writes one statement that fails on its own.
func (g *gen) failingPiece() {
	kinds := []struct{ kind, body string }{
		{"unknown-identifier", "zq + 1"},
		{"division-by-zero", "n1 / 0"},
		{"index-out-of-range", "xs[7]"},
		{"type-mismatch", `n1 + true`},
		{"not-a-function", "n1(2)"},
		{"bad-argument", `obj.Add("x", 1)`},
		{"unknown-operator", `true - false`},
		{"missing-contentOf", `contentOf("absent")`},
	}
	kinds = append(kinds, []struct{ kind, body string }{
		{"index-assign-out-of-range", ""}, // two tags, see below
		{"assign-to-loop-local-variable", ""},
		{"assign-to-function-local-variable", ""},
		{"assign-to-undeclared-variable", ""},
		{"iterate-non-iterable", ""},
		{"toJSON-of-func", "toJSON(pv)"},
		{"missing-field", "obj.Nofield"},
		{"regex-does-not-compile", `s1 ~= "(["`},
		{"float-division-by-zero", "f64 / 0.0"},
		{"call-a-string", `s1(1)`},
		{"string-minus", `s1 - 1`},
		{"index-equals-length", "xs[3]"},
		{"index-a-number", "n1[0]"},
		{"pathFor-of-int", "pathFor(n1)"},
		{"groupBy-size-zero", "groupBy(0, xs)"},
		{"method-on-unknown-identifier", "zq.Greet(1)"},
		{"member-of-unknown-identifier", "zq.Name"},
		{"index-of-unknown-identifier", "zq[0]"},
		{"deep-method-on-unknown-identifier", "zq.a.b(1)"},
		{"env-of-unset-variable", `env("VERIF_ENV_MISSING")`},
		{"float-argument-for-int-parameter", "obj.Add(1.5, 1)"},
		{"helper-panics", "ppanic()"},
		// more than a thousand levels of nesting around the failing operand
		{"failure-1200-parentheses-deep", strings.Repeat("(", 1200) + "n1 / 0" + strings.Repeat(")", 1200)},
		{"failure-1100-brackets-deep", strings.Repeat("[", 1100) + "xs[7]" + strings.Repeat("]", 1100)},
		{"int-argument-for-string-parameter", "obj.Greet(65)"},
		{"json-of-func", "json(pv)"},
		// operations on literals only (nothing of the context enters)
		{"literal-division-by-zero", "10 / 0"},
		{"literal-regex-does-not-compile", `"abc" ~= "("`},
		{"literal-string-minus", `"n: " - 1`},
		{"literal-index-out-of-range", "[1, 2][5]"},
		{"literal-modulo-like-mismatch", `1 + true`},
		// an unknown identifier that is NEAR several bound names (n1, n2; s1, s2; b0, b1)
		{"unknown-identifier-near-bound-names", "n3 + 1"},
		{"unknown-identifier-near-bound-names-2", "s3"},
	}...)
	kinds = append(kinds, []struct{ kind, body string }{
		// operations that fail in the less travelled operators (arrays, floats, nil, mixed kinds, map keys, argument counts)
		{"append-wrong-type-to-typed-slice", `xs + "a"`},
		{"array-literal-minus", "[1, 2] - 1"},
		{"array-times", "xs * 2"},
		{"float-regex-match", "f64 ~= 2.5"},
		{"nil-plus-nil", "nil + nil"},
		{"nil-minus-int", "nil - 1"},
		{"nil-less-than", "nil < 1"},
		{"int-regex-match", "n1 ~= 2"},
		{"int-key-for-string-map", "m1[1]"},
		{"bool-key-for-string-map", "mi[true]"},
		{"too-many-arguments-for-method", `obj.Greet("a", "b")`},
		{"too-many-arguments-for-helper", `upcase("a", "b")`},
		{"string-times", "s1 * 2"},
		{"string-index-for-slice", `xs["a"]`},
		{"float-index-for-slice", "ss[1.5]"},
		{"float-plus-string", `f64 + "a"`},
		{"float-minus-bool", "f64 - true"},
		{"float-plus-int", "1.5 + n1"},
		{"int-plus-float", "n1 + 1.5"},
		{"bool-less-than", "b1 < b0"},
		{"member-of-slice-field", "obj.Tags.Nope"},
		{"member-of-string-field", "obj.Name.Nope"},
		{"member-of-map-by-dot", "m1.nope.deeper"},
		{"prefix-minus", "-n1"},
		{"pathFor-of-nil", "pathFor(nil)"},
		{"block-helper-called-without-a-block", "needblock()"},
		{"tilde-without-equals-on-ints", "n1 ~ 2"},
		{"indexed-field-out-of-range", "obj.Kids[5].Label"},
		{"indexed-field-missing-member", "obj.Kids[0].Nope"},
		{"method-on-indexed-field-unknown-identifier", `obj.Kids[0].Hello("x")`},
		// assignments that fail (statement forms: kind starts with "stmt-")
		{"stmt-bare-unknown-identifier", "zq"},                                            // a statement that is ONE token
		{"stmt-partial-without-a-feeder", `let partialFeeder = 1 %><%= partial("pnone")`}, // the name is bound, but not to a feeder
		{"stmt-assign-string-into-int-slice", `xs[0] = "a"`},
		{"stmt-assign-with-string-index", `xs["a"] = 1`},
		{"stmt-assign-index-of-a-number", "n1[0] = 1"},
		{"stmt-assign-int-into-string-slice", "ss[0] = 1"},
		{"stmt-assign-int-into-string-slice-field", "obj.Tags[0] = 1"},
		{"stmt-assign-to-field-unknown-identifier", "obj.Name = 1"},
		{"stmt-assign-index-equals-length", "xs[3] = 1"},
		{"stmt-assign-index-of-a-string", `s1[0] = "x"`},
		{"missing-field-mid-path", "obj.Nofield.X"},
		{"missing-field-deep-in-path", "obj.Inner.Nofield.Y"},
		{"field-of-a-number", "n1.Foo.Bar"},
	}...)
	k := kinds[g.intn("failkind", 0, len(kinds)-1)]
	isStmt := strings.HasPrefix(k.kind, "stmt-")
	if k.body != "" && !isStmt && !strings.Contains(k.kind, "unknown-identifier") && g.pct("failframe", 50) {
		// the failing operation sits in a frame that tolerates an UNKNOWN IDENTIFIER (condition, operand of
		// ! == != && ||): a failed operation is not an unknown identifier, the render must fail all the same
		frames := []struct{ name, f string }{
			{"not", "!(%s)"}, {"eq-left", "(%s) == 1"}, {"ne-left", "(%s) != 1"}, {"and-left", "(%s) && true"}, {"or-left", "(%s) || true"},
			{"and-right", "true && (%s)"}, {"or-right", "false || (%s)"}, {"eq-right", "1 == (%s)"},
			{"if-condition", "if (%s) { return 1 } else { return 2 }"}, {"else-if-condition", "if (false) { return 1 } else if (%s) { return 2 }"},
		}
		fr := frames[g.intn("failframekind", 0, len(frames)-1)]
		if strings.HasPrefix(k.body, "[") && strings.Contains(fr.name, "if-condition") {
			fr = frames[0] // the PARSER rejects an array literal as a condition: that would be a syntax error, not a failing operation
		}
		k.kind += "@" + fr.name
		k.body = fmt.Sprintf(fr.f, k.body)
		g.feat("failing_operation_in_tolerant_frame")
	}
	g.p.Failing = k.kind
	if g.nest > 0 || g.cur.name != "" {
		// nested (in a body or a partial): guard with a marker probe that is
		// evaluated, in the same tag, right before the failing operation
		if k.body == "" || isStmt {
			k = kinds[1]
			g.p.Failing = k.kind
		}
		g.frames = 0
		m := g.newSite(pkValue, "natural-failure-marker", kAny)
		g.p.FailMarker = m
		g.tag("<%=", fmt.Sprintf("[pv(%d, 0), %s]", m.ID, k.body), "%>")
		g.nl()
		return
	}
	switch k.kind {
	case "index-assign-out-of-range":
		a := g.fresh("arr")
		g.tag("<%", "let "+a+" = [1, 2]", "%>")
		g.nl()
		g.p.FailLine = g.cur.line
		g.tag("<%", a+"[5] = 1", "%>")
	case "assign-to-loop-local-variable":
		v := g.fresh("tmp")
		g.tag("<%", "for (x) in [1, 2] { let "+v+" = x }", "%>")
		g.nl()
		g.p.FailLine = g.cur.line
		g.tag("<%", v+" = 5", "%>")
	case "assign-to-function-local-variable":
		v, f := g.fresh("tmp"), g.fresh("f")
		g.tag("<%", "let "+f+" = fn() { let "+v+" = 1 }", "%>")
		g.nl()
		g.tag("<%=", f+"()", "%>")
		g.nl()
		g.p.FailLine = g.cur.line
		g.tag("<%", v+" = 5", "%>")
	case "assign-to-undeclared-variable":
		g.p.FailLine = g.cur.line
		g.tag("<%", g.fresh("undeclared")+" = 5", "%>")
	case "iterate-non-iterable":
		g.p.FailLine = g.cur.line
		g.tag("<%=", "for (x) in n1 {", "%>")
		g.cur.write("x")
		g.tag("<%", "}", "%>")
	default:
		g.p.FailLine = g.cur.line
		if isStmt && strings.Contains(k.body, "%><%") {
			g.cur.write("<% " + k.body + " %>") // two tags on one line: never split
		} else if isStmt {
			g.tag("<%", k.body, "%>")
		} else if g.o.splitTags && g.pct("failmultistmt", 20) {
			// the failing statement is the last of several in one code tag, after a comment line
			g.feat("failing_statement_in_multi_statement_tag")
			g.cur.write("<%\n  let " + g.fresh("mv") + " = 1\n  # the next statement fails\n")
			g.p.FailAltLine = g.cur.line
			if k.kind == "unknown-identifier" && g.pct("bareident", 50) {
				// the failing statement is one identifier, directly followed by the newline before the closing delimiter
				g.feat("failing_statement_is_one_token_at_end_of_line")
				g.cur.write("  zq\n%>")
			} else {
				g.cur.write("  let " + g.fresh("mv") + " = " + k.body + "\n%>")
			}
		} else {
			g.tag("<%=", k.body, "%>")
		}
	}
	g.nl()
}

// brokenTags: tags that make the whole template fail to parse (each verified
// to return an error, not to hang, on the pinned tree).
var brokenTags = []string{
	"<%= for (x in xs { %>a<% } %>",
	"<% break %>",
	"<% continue %>",
	"<%= if (n1 == ) { %>a<% } %>",
	"<%= if n1 { %>a<% } %>",
	"<% let = 3 %>",
	"<% let x %>",
	"<%= (1 + 2 %>",
	"<%= [1, 2 %>",
	"<%= {\"a\": 1 %>",
	"<%= {\"a\" 1} %>",
	"<%= 1 ^ 2 %>",
	"<%= 1.2.3 %>",
	"<%= xs[1 %>",
	"<%= for (i, v) xs { %>a<% } %>",
	"<%= fn(a { return a } %>",
	"<%= a & b %>",
	"<%= if ([1]) { %>a<% } %>",
	// the rest of the broken construct on later lines: follow-up messages then carry later line numbers
	"<%= for (x in xs { %>\nbody\n<% } %>",
	"<%= if (n1 == ) { %>\nbody\n<% } %>",
	"<%= for (i, v) xs { %>\nbody\n\n<% } %>",
	"<%= if n1 { %>\nbody\n<% } %>",
	"<%= fn(a { return a } %>\nx\n<%= 1 ^ 2 %>\n<% let = 3 %>",
	// an opening bracket or a comma right before the closing delimiter: the unexpected token is the text that follows
	"<%= foo(n1, %>",
	"<%= foo( %>",
	"<% let q = [1, 2, %>",
	"<%= {\"a\": 1, %>",
	// "@+1:" — the broken clause is on the SECOND line of this text: a tag whose closing delimiter sits at the start of
	// the next line, directly followed by the broken tag
	"@+1:<%= if (b1) { %>x<% let q9 = 1\n%><% } else if ( { %>y<% } %>",
	"@+1:<%= for (x) in xs { %><%= x\n%><% } else { %>",
	"@+2:<% let q8 = [1,\n2]\n%><%= foo(n1, %>",
	// the token the parser is at when it gives up is directly followed by a newline
	"<% let x\n%>",
	"<% let x = 1.2.3\n%>",
	"<% break\n%>",
	"<%= if (b1) { return 1 } else\n%>",
	// one expected token missing in each of the parser's less common productions
	"<%= if (b1) %>a<% } %>",
	"<%= if (b1) { %>a<% } else if b1 { %>b<% } %>",
	"<%= if (b1) { %>a<% } else if (b1) %>b<% } %>",
	"<% let f = fn x { return 1 } %>",
	"<% let f = fn(x) return 1 %>",
	"<%= for (x) in xs %>a<% } %>",
	"<%= if (b1 { %>a<% } %>",
	"<%= obj.Kids[0].(1) %>",
	"<%= obj.Kids[0].Label + 1 %>",
	"<%= n1 | 2 %>",
	"<%= .5.5 %>",
	"<%= {\"a\": 1 ] %>",
	"<%= fn(a, ) { } %>",
	"<%= foo(1 2) %>",
	"<%= [1 2] %>",
	"<%= ) %>",
	"<%= ] %>",
	"<% } else { %>",
	// one broken tag that sets off more than ten messages
	"<%= 1 ))))))))))))) %>",
	"<%= pb(0, {\"a\": 1 \"b\": 2, \"c\": 3, \"d\": 4, \"e\": 5, \"f\": 6, \"g\": 7}) { %>\nx\n<% } %>",
	// number literals the parser cannot convert
	"<%= 99999999999999999999 %>",
	"<%= n1 + 18446744073709551616 %>",
	"<%= 1" + strings.Repeat("0", 400) + ".5 %>",
	// (for headers that never close their parenthesis are in fault.go's list of constructs that END the input: the
	// parser looks ahead for ')' through everything that follows, so what follows decides where it gives up)
	"<%= for x in xs { %>a<% } %>\nmore\n",
}

// genProgram draws one program.
func genProgram(t *rapid.T, o genOpts) *Program {
	if o.maxPieces == 0 {
		o.maxPieces = 6
	}
	if o.maxDepth == 0 {
		o.maxDepth = 3
	}
	if o.probePct == 0 {
		o.probePct = 30
	}
	p := &Program{Partials: map[string]string{}, Sites: map[int]*Site{}, FeederSites: map[string]*Site{}, Features: map[string]int{}}
	g := &gen{t: t, o: o, p: p, cur: &tmpl{name: "", line: 1}, cfDefined: map[string]bool{}}
	p.JS = g.pct("js", 25)
	if o.litModePct > 0 && g.pct("textonly", o.litModePct/3) {
		// no code at all
		g.feat("text_only_program")
		for i, n := 0, g.size("ntextruns", 1, 4); i < n; i++ {
			g.text()
			g.cur.write("plain text\n")
		}
		p.Main = g.cur.sb.String()
		return p
	}
	if o.litModePct > 0 && g.pct("litmode", o.litModePct) {
		g.feat("mostly_literal_program")
		g.litOnly = true
		g.o.probes = false
		g.o.noPartials = true
		zones := []string{"if-body", "else-if-body", "else-body", "for-body", "fn-body", "block-helper-block", "htmlEscape-block", "contentFor-block", "contentOf-default-block"}
		g.dataZones = map[string]bool{}
		for i, n := 0, g.size("nzones", 1, 2); i < n; i++ {
			g.dataZones[zones[g.intn("zone", 0, len(zones)-1)]] = true
		}
	}
	np := g.size("pieces", 1, o.maxPieces)
	failAt := -1
	if o.failPct == 0 {
		o.failPct = 100
	}
	if o.failing && g.pct("failing", o.failPct) {
		failAt = g.intn("failat", 0, np-1)
	}
	brokenAt := -1
	if o.brokenPct > 0 && g.pct("broken", o.brokenPct) {
		brokenAt = g.intn("brokenat", 0, np-1)
	}
	for i := 0; i < np; i++ {
		if i == brokenAt {
			g.text()
			k := g.intn("brokenkind", 0, len(brokenTags)-1)
			if len(o.brokenKinds) > 0 {
				k = o.brokenKinds[g.intn("brokenkindsel", 0, len(o.brokenKinds)-1)]
			}
			p.Broken = brokenTags[k]
			p.BrokenLine = g.cur.line
			if strings.HasPrefix(p.Broken, "@+") {
				// the broken clause sits that many lines below the start of the text
				off := int(p.Broken[2] - '0')
				p.Broken = p.Broken[4:]
				p.BrokenLine += off
			}
			g.feat("broken_tag")
			g.cur.write(p.Broken)
			g.nl()
			continue
		}
		if i == failAt {
			g.text()
			g.failingPiece()
			continue
		}
		g.piece(o.maxDepth)
	}
	if o.lateLet && g.pct("scriptnames", 10) {
		// names RunScript binds for scripts only: a template must never see them
		g.feat("tolerated_read_of_script_only_names")
		g.frames = 0
		g.tag("<%=", "if (println) { return \"P\" } else { return \"-\" }", "%>")
		g.tag("<%=", "print == nil", "%>")
	}
	if o.lateLet && len(p.Tolerant) > 0 && g.pct("latelet", 60) {
		g.feat("late_let_of_the_tolerated_name")
		g.text()
		g.frames = 0
		g.tag("<%", "let zz = 7", "%>")
		g.tag("<%=", "zz", "%>")
	}
	if o.fewArgs && g.pct("fewargs", 6) {
		// a call with FEWER arguments than the function has parameters ends the render of the pinned tree with a panic
		// (index out of range in evalUserFunction; the harness reports a panic as this execution's result). Only for
		// engines that compare executions with each other: whatever such a call does, it must do it without touching
		// the shared parsed program
		g.feat("user_fn_called_with_too_few_arguments")
		f := g.fresh("fw")
		np := g.intn("fewparams", 4, 9)
		var ps, as []string
		for i := 0; i < np; i++ {
			ps = append(ps, fmt.Sprintf("a%d", i))
		}
		for i, na := 0, g.intn("fewargsn", 1, np-1); i < na; i++ {
			as = append(as, fmt.Sprint(i+1))
		}
		g.tag("<%", "let "+f+" = fn("+strings.Join(ps, ", ")+") { return a0 }", "%>")
		g.tag("<%=", f+"("+strings.Join(as, ", ")+")", "%>")
	}
	g.text()
	p.Main = g.cur.sb.String()
	return p
}

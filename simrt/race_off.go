//go:build !race

package simrt

import "unsafe"

// RaceEnabled reports whether the binary was built with -race.
const RaceEnabled = false

func raceDisable() {}
func raceEnable()  {}

// RaceErrors is always 0 without -race.
func RaceErrors() int { return 0 }

func raceAcquire(p unsafe.Pointer)      {}
func raceRelease(p unsafe.Pointer)      {}
func raceReleaseMerge(p unsafe.Pointer) {}

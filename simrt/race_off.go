//go:build !race

package simrt

// RaceEnabled reports whether the binary was built with -race.
const RaceEnabled = false

func raceDisable() {}
func raceEnable()  {}

// RaceErrors is always 0 without -race.
func RaceErrors() int { return 0 }

package simrt

import "sync"

// Simulated blocking for sync.Cond, sync.Once and sync.WaitGroup: a task that
// would park inside the Go runtime is instead marked blocked under the
// scheduler, so lost wake-ups and circular waits end as a deterministic
// deadlock report instead of a stalled baton.

type condKey struct{ c *sync.Cond }

var (
	condWaiters = map[*sync.Cond][]*task{}
	onceState   = map[*sync.Once]*onceInfo{}
	wgCount     = map[*sync.WaitGroup]int{}
)

type onceInfo struct {
	running *task
	done    bool
}

//go:norace
func resetSyncSim() {
	condWaiters = map[*sync.Cond][]*task{}
	onceState = map[*sync.Once]*onceInfo{}
	wgCount = map[*sync.WaitGroup]int{}
}

// CondWait replaces c.Wait().
//
//go:norace
func CondWait(c *sync.Cond, site string) {
	t := cur
	if t == nil {
		c.Wait()
		return
	}
	if t.abort {
		return
	}
	l, ok := c.L.(Locker)
	if !ok {
		// cannot simulate: fall back to the real primitive (may stall the
		// baton; the watchdog then ends the process with status 2)
		handOff(t, site)
		c.Wait()
		return
	}
	condWaiters[c] = append(condWaiters[c], t)
	l.Unlock()
	unblock(l)
	t.blocked = condKey{c}
	handOff(t, site) // runnable again only after Signal/Broadcast
	for !l.TryLock() {
		active.Contentions++
		t.blocked = l
		handOff(t, site)
	}
}

// CondSignal replaces c.Signal(): wakes the longest waiter.
//
//go:norace
func CondSignal(c *sync.Cond, site string) {
	t := cur
	if t == nil {
		c.Signal()
		return
	}
	if ws := condWaiters[c]; len(ws) > 0 {
		ws[0].blocked = nil
		condWaiters[c] = ws[1:]
	}
	if t.abort {
		return
	}
	handOff(t, site)
}

// CondBroadcast replaces c.Broadcast().
//
//go:norace
func CondBroadcast(c *sync.Cond, site string) {
	t := cur
	if t == nil {
		c.Broadcast()
		return
	}
	for _, w := range condWaiters[c] {
		w.blocked = nil
	}
	delete(condWaiters, c)
	if t.abort {
		return
	}
	handOff(t, site)
}

// OnceDo replaces o.Do(f).
//
//go:norace
func OnceDo(o *sync.Once, f func(), site string) {
	t := cur
	if t == nil || t.abort {
		o.Do(f)
		return
	}
	handOff(t, site)
	for {
		st := onceState[o]
		if st == nil {
			st = &onceInfo{}
			onceState[o] = st
		}
		if st.done {
			o.Do(f) // establishes the real happens-before edge, does not call f
			return
		}
		if st.running == nil {
			st.running = t
			o.Do(f)
			st.done = true
			st.running = nil
			unblock(o)
			return
		}
		if st.running == t {
			o.Do(f) // re-entrant Do deadlocks in real Go; let it show
			return
		}
		t.blocked = o
		handOff(t, site)
	}
}

//go:norace
func WGAdd(wg *sync.WaitGroup, n int, site string) {
	wg.Add(n)
	t := cur
	if t == nil {
		return
	}
	wgCount[wg] += n
	if wgCount[wg] <= 0 {
		unblock(wg)
	}
	if t.abort {
		return
	}
	handOff(t, site)
}

//go:norace
func WGDone(wg *sync.WaitGroup, site string) { WGAdd(wg, -1, site) }

//go:norace
func WGWait(wg *sync.WaitGroup, site string) {
	t := cur
	if t == nil {
		wg.Wait()
		return
	}
	if t.abort {
		return
	}
	handOff(t, site)
	for wgCount[wg] > 0 {
		t.blocked = wg
		handOff(t, site)
	}
	wg.Wait()
}

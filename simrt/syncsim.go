package simrt

import "sync"

// Simulated blocking for sync.Cond, sync.Once and sync.WaitGroup: a task that
// would park inside the Go runtime is instead marked blocked under the
// scheduler, so lost wake-ups and circular waits end as a deterministic
// deadlock report instead of a stalled baton.

type condKey struct{ c *sync.Cond }

// association lists, not maps (see sched.go: map accesses are visible to the
// race detector even in //go:norace code)
var condL, onceL, wgL []assoc

type onceInfo struct {
	running *task
	done    bool
}

//go:norace
func resetSyncSim() { condL, onceL, wgL = nil, nil, nil }

//go:norace
func slot(l *[]assoc, key interface{}) *assoc {
	if i := find(*l, key); i >= 0 {
		return &(*l)[i]
	}
	*l = append(*l, assoc{key: key})
	return &(*l)[len(*l)-1]
}

// CondWait replaces c.Wait().
//
//go:norace
func CondWait(c *sync.Cond, site string) {
	t := me()
	if t == nil {
		c.Wait()
		return
	}
	if t.abort {
		return
	}
	l, ok := c.L.(Locker)
	if !ok {
		// cannot simulate: fall back to the real primitive (may stall the
		// baton; the watchdog then ends the process with status 2)
		handOff(t, site)
		c.Wait()
		return
	}
	w := slot(&condL, c)
	w.ts = append(w.ts, t)
	l.Unlock()
	unblock(l)
	t.blocked = condKey{c}
	handOff(t, site) // runnable again only after Signal/Broadcast
	for !l.TryLock() {
		active.Contentions++
		t.blocked = l
		handOff(t, site)
	}
}

// CondSignal replaces c.Signal(): wakes the longest waiter.
//
//go:norace
func CondSignal(c *sync.Cond, site string) {
	t := me()
	if t == nil {
		c.Signal()
		return
	}
	if w := slot(&condL, c); len(w.ts) > 0 {
		w.ts[0].blocked = nil
		w.ts = w.ts[1:]
	}
	if t.abort {
		return
	}
	handOff(t, site)
}

// CondBroadcast replaces c.Broadcast().
//
//go:norace
func CondBroadcast(c *sync.Cond, site string) {
	t := me()
	if t == nil {
		c.Broadcast()
		return
	}
	ws := slot(&condL, c)
	for _, w := range ws.ts {
		w.blocked = nil
	}
	ws.ts = nil
	if t.abort {
		return
	}
	handOff(t, site)
}

// OnceDo replaces o.Do(f).
//
//go:norace
func OnceDo(o *sync.Once, f func(), site string) {
	t := me()
	if t == nil || t.abort {
		o.Do(f)
		return
	}
	handOff(t, site)
	for {
		sl := slot(&onceL, o)
		if sl.o == nil {
			sl.o = &onceInfo{}
		}
		st := sl.o
		if st.done {
			o.Do(f) // establishes the real happens-before edge, does not call f
			return
		}
		if st.running == nil {
			st.running = t
			o.Do(f)
			st.done = true
			st.running = nil
			unblock(o)
			return
		}
		if st.running == t {
			o.Do(f) // re-entrant Do deadlocks in real Go; let it show
			return
		}
		t.blocked = o
		handOff(t, site)
	}
}

//go:norace
func WGAdd(wg *sync.WaitGroup, n int, site string) {
	t := me() // identity first: the real Add may release a waiter that starts the next run at once
	if t == nil {
		if active == nil {
			// outside any run (the controller preparing a run, or a goroutine the code under test started
			// there): the shadow count is kept, so that a run that starts afterwards knows the counter
			outsideMu.Lock()
			if active == nil {
				slot(&wgL, wg).n += n
			}
			outsideMu.Unlock()
		}
		wg.Add(n)
		return
	}
	w := slot(&wgL, wg)
	w.n += n
	wg.Add(n)
	if w.n <= 0 {
		unblock(wg)
	}
	if t.abort {
		return
	}
	handOff(t, site)
}

//go:norace
func WGDone(wg *sync.WaitGroup, site string) { WGAdd(wg, -1, site) }

//go:norace
func WGWait(wg *sync.WaitGroup, site string) {
	t := me()
	if t == nil {
		wg.Wait()
		return
	}
	if t.abort {
		return
	}
	handOff(t, site)
	for slot(&wgL, wg).n > 0 {
		t.blocked = wg
		handOff(t, site)
	}
	wg.Wait()
}

package simrt

import (
	"sync"
	"unsafe"
)

// Simulated sync.Pool (instrumenter rule R7). What Get returns — an item some
// goroutine Put earlier, or a fresh one from New — is the Go runtime's choice
// (per-P caches, victim caches emptied by the garbage collector; race builds
// drop a quarter of all Puts at random). Every outcome the simulation produces
// is one sync.Pool allows; which one is decided by the run's seeded stream, so
// a run replays:
//
//	canonical map-order policy: Get always reuses the most recently Put item
//	                            (reference renders are stable)
//	any other policy:           a seeded coin between reuse and a fresh item, and
//	                            a seeded pick among the items in the pool
//
// The race detector is given the edge the real pool gives it: everything
// before Put(x) happens before the Get that returns x.

type poolItem struct {
	x   interface{}
	tok *byte // address for the race detector's release/acquire pair
}

type poolState struct {
	p     *sync.Pool
	items []poolItem
}

var (
	poolMu sync.Mutex // real lock: pools are also used by goroutines outside any run
	poolL  []*poolState

	PoolGets, PoolReuses uint64
)

const poolCap = 64

//go:norace
func poolOf(p *sync.Pool) *poolState {
	for _, s := range poolL {
		if s.p == p {
			return s
		}
	}
	s := &poolState{p: p}
	poolL = append(poolL, s)
	return s
}

// PoolGet replaces p.Get().
//
//go:norace
func PoolGet(p *sync.Pool, site string) interface{} {
	Yield(site)
	poolMu.Lock()
	s := poolOf(p)
	PoolGets++
	var it poolItem
	have := false
	if n := len(s.items); n > 0 {
		reuse, i := true, n-1
		if mapPolicy != Canonical {
			reuse = pickN(8) != 0
			i = pickN(n)
		}
		if reuse {
			it, have = s.items[i], true
			s.items = append(s.items[:i], s.items[i+1:]...)
			PoolReuses++
		} else if pickN(2) == 0 {
			// the runtime may also have dropped it for good
			s.items = append(s.items[:i], s.items[i+1:]...)
		}
	}
	poolMu.Unlock()
	if have {
		raceAcquire(unsafe.Pointer(it.tok))
		return it.x
	}
	if p.New != nil {
		return p.New()
	}
	return nil
}

// PoolPut replaces p.Put(x).
//
//go:norace
func PoolPut(p *sync.Pool, x interface{}, site string) {
	if x == nil {
		return
	}
	tok := new(byte)
	raceReleaseMerge(unsafe.Pointer(tok))
	poolMu.Lock()
	s := poolOf(p)
	if len(s.items) >= poolCap {
		s.items = s.items[1:]
	}
	s.items = append(s.items, poolItem{x: x, tok: tok})
	poolMu.Unlock()
	Yield(site)
}

// ResetPools empties every simulated pool (the controller, when it wants a cold start).
//
//go:norace
func ResetPools() {
	poolMu.Lock()
	for _, s := range poolL {
		s.items = nil
	}
	poolMu.Unlock()
}

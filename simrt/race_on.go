//go:build race

package simrt

import (
	"runtime"
	"unsafe"
)

// RaceEnabled reports whether the binary was built with -race.
const RaceEnabled = true

func raceDisable() { runtime.RaceDisable() }
func raceEnable()  { runtime.RaceEnable() }

// RaceErrors is the number of data races the Go race runtime has reported so far.
func RaceErrors() int { return runtime.RaceErrors() }

func raceAcquire(p unsafe.Pointer)      { runtime.RaceAcquire(p) }
func raceRelease(p unsafe.Pointer)      { runtime.RaceRelease(p) }
func raceReleaseMerge(p unsafe.Pointer) { runtime.RaceReleaseMerge(p) }

//go:build race

package simrt

import "runtime"

// RaceEnabled reports whether the binary was built with -race.
const RaceEnabled = true

func raceDisable() { runtime.RaceDisable() }
func raceEnable()  { runtime.RaceEnable() }

// RaceErrors is the number of data races the Go race runtime has reported so far.
func RaceErrors() int { return runtime.RaceErrors() }

package simrt

import (
	"fmt"
	"os"
	"reflect"
	"sort"
)

// MapPolicy is how the simulator answers "in which order is this map walked".
type MapPolicy int

const (
	Canonical MapPolicy = iota
	Reversed
	Rotated
	Shuffled
)

func (p MapPolicy) String() string {
	switch p {
	case Canonical:
		return "canonical"
	case Reversed:
		return "reversed"
	case Rotated:
		return "rotated"
	case Shuffled:
		return "shuffled"
	}
	return "?"
}

var (
	mapPolicy MapPolicy
	mapSeed   uint64
	mapCalls  uint64

	// MapWalks counts map iterations answered by the seam, MapWalksMulti those
	// over more than one entry, UnorderedTies canonical-order ties that could
	// not be broken (their relative order is then Go's, i.e. uncontrolled).
	MapWalks, MapWalksMulti, UnorderedTies uint64
)

// SetMapOrder selects the policy for all following map walks. Called by the
// controller between runs. seed keys the stream used by Rotated and Shuffled.
//
//go:norace
func SetMapOrder(p MapPolicy, seed uint64) {
	mapPolicy, mapSeed, mapCalls = p, seed, 0
}

//go:norace
func MapOrder() MapPolicy { return mapPolicy }

// The order in which maps are walked while packages INITIALISE (tables built by ranging over a map in an init
// function or a package-level variable) is fixed for the life of the process. Go would pick it at random per
// process; here the driver picks it per worker process (VERIF_INIT_MAPORDER=<policy>:<seed>; canonical when
// unset, as in the pristine reference processes), so that a result that depends on it differs between processes
// in a replayable way.
func init() {
	v := os.Getenv("VERIF_INIT_MAPORDER")
	if v == "" {
		return
	}
	var p, seed uint64
	if _, err := fmt.Sscanf(v, "%d:%d", &p, &seed); err == nil && p <= uint64(Shuffled) {
		SetMapOrder(MapPolicy(p), seed)
	}
}

func splitmix(x uint64) uint64 {
	x += 0x9e3779b97f4a7c15
	x = (x ^ (x >> 30)) * 0xbf58476d1ce4e5b9
	x = (x ^ (x >> 27)) * 0x94d049bb133111eb
	return x ^ (x >> 31)
}

//go:norace
func tie() { UnorderedTies++ }

// permute reorders n canonical positions in place according to the policy.
//
//go:norace
func permute(n int, swap func(i, j int)) {
	MapWalks++
	if n < 2 {
		return
	}
	MapWalksMulti++
	mapCalls++
	switch mapPolicy {
	case Canonical:
	case Reversed:
		for i, j := 0, n-1; i < j; i, j = i+1, j-1 {
			swap(i, j)
		}
	case Rotated:
		r := int(splitmix(mapSeed^(mapCalls*0x9e3779b97f4a7c15)) % uint64(n))
		// rotate left by r using three reversals
		rev := func(a, b int) {
			for a < b {
				swap(a, b)
				a++
				b--
			}
		}
		rev(0, r-1)
		rev(r, n-1)
		rev(0, n-1)
	case Shuffled:
		x := mapSeed ^ (mapCalls * 0x9e3779b97f4a7c15)
		for i := n - 1; i > 0; i-- {
			x = splitmix(x)
			j := int(x % uint64(i+1))
			swap(i, j)
		}
	}
}

// Entry is one (map, key) pair handed to a rewritten range loop.
type Entry[M ~map[K]V, K comparable, V any] struct {
	m M
	k K
}

// KV performs the live lookup, so entries deleted during the walk are skipped
// (ok == false) and updated values are seen, as with a native range.
func (e Entry[M, K, V]) KV() (K, V, bool) {
	v, ok := e.m[e.k]
	return e.k, v, ok
}

// Entries returns the entries of m in the simulator-chosen order. It is not
// //go:norace: its reads of m must stay visible to the race detector exactly
// like the native range loop it replaces.
func Entries[M ~map[K]V, K comparable, V any](m M) []Entry[M, K, V] {
	n := len(m)
	if n == 0 {
		permute(0, nil)
		return nil
	}
	es := make([]Entry[M, K, V], 0, n)
	for k := range m {
		es = append(es, Entry[M, K, V]{m, k})
	}
	if n > 1 {
		var k0 K
		switch any(k0).(type) {
		case string:
			sort.Slice(es, func(i, j int) bool { return any(es[i].k).(string) < any(es[j].k).(string) })
		case int:
			sort.Slice(es, func(i, j int) bool { return any(es[i].k).(int) < any(es[j].k).(int) })
		default:
			fps := make([]string, n)
			for i := range es {
				fps[i] = fingerprint(any(es[i].k)) + "\x00" + fingerprint(any(es[i].m[es[i].k]))
			}
			idx := make([]int, n)
			for i := range idx {
				idx[i] = i
			}
			sort.SliceStable(idx, func(a, b int) bool { return fps[idx[a]] < fps[idx[b]] })
			out := make([]Entry[M, K, V], n)
			for i, j := range idx {
				out[i] = es[j]
				if i > 0 && fps[j] == fps[idx[i-1]] {
					tie()
				}
			}
			es = out
		}
	}
	permute(n, func(i, j int) { es[i], es[j] = es[j], es[i] })
	return es
}

// OrderValues puts the result of reflect.Value.MapKeys in the
// simulator-chosen order.
//
//go:norace
func OrderValues(vs []reflect.Value) []reflect.Value {
	n := len(vs)
	if n > 1 {
		fps := make([]string, n)
		for i, v := range vs {
			if v.CanInterface() {
				fps[i] = fingerprint(v.Interface())
			} else {
				fps[i] = fmt.Sprintf("%s|%v", v.Type(), v)
			}
		}
		idx := make([]int, n)
		for i := range idx {
			idx[i] = i
		}
		sort.SliceStable(idx, func(a, b int) bool { return fps[idx[a]] < fps[idx[b]] })
		out := make([]reflect.Value, n)
		for i, j := range idx {
			out[i] = vs[j]
			if i > 0 && fps[j] == fps[idx[i-1]] {
				UnorderedTies++
			}
		}
		vs = out
	}
	permute(n, func(i, j int) { vs[i], vs[j] = vs[j], vs[i] })
	return vs
}

// fingerprint is a deterministic, address-free description of a key.
func fingerprint(x interface{}) string {
	if x == nil {
		return "nil"
	}
	rv := reflect.ValueOf(x)
	switch rv.Kind() {
	case reflect.Ptr, reflect.Interface, reflect.Func, reflect.Chan, reflect.UnsafePointer, reflect.Map, reflect.Slice:
		// never print an address
		s := fmt.Sprintf("%T", x)
		if st, ok := x.(fmt.Stringer); ok && !(rv.Kind() == reflect.Ptr && rv.IsNil()) {
			s += "|" + st.String()
		}
		// ast nodes: add the source line through the T() accessor
		if m := rv.MethodByName("T"); m.IsValid() && m.Type().NumIn() == 0 && m.Type().NumOut() == 1 && !(rv.Kind() == reflect.Ptr && rv.IsNil()) {
			tok := m.Call(nil)[0]
			if tok.Kind() == reflect.Struct {
				if f := tok.FieldByName("LineNumber"); f.IsValid() {
					s += fmt.Sprintf("|L%v", f.Interface())
				}
			}
		}
		return s
	}
	return fmt.Sprintf("%T|%v", x, x)
}

// ------------------------------------------------------------------ iterators

// coin flips a seeded coin for "is an entry inserted during the walk visited?"
// (Go leaves that open). Under the Canonical policy the answer is always no,
// so reference renders are stable.
//
//go:norace
func coin() bool {
	if mapPolicy == Canonical {
		return false
	}
	mapCalls++
	return splitmix(mapSeed^(mapCalls*0xd1342543de82ef95))&1 == 1
}

// MapIt walks a map in the simulator-chosen order with Go's semantics for
// mutation during the walk: deleted entries are not produced, updated values
// are seen, and each entry inserted during the walk is produced or not as the
// simulator decides.
type MapIt[M ~map[K]V, K comparable, V any] struct {
	m      M
	queue  []Entry[M, K, V]
	i      int
	seen   map[K]struct{}
	rescan int
	k      K
	v      V
}

// Iter replaces `range m` (see cmd/instrument, rule R3).
func Iter[M ~map[K]V, K comparable, V any](m M) *MapIt[M, K, V] {
	return &MapIt[M, K, V]{m: m, queue: Entries(m), i: -1}
}

func (it *MapIt[M, K, V]) Next() bool {
	for {
		it.i++
		if it.i < len(it.queue) {
			k, v, ok := it.queue[it.i].KV()
			if !ok {
				continue // deleted during the walk
			}
			it.k, it.v = k, v
			return true
		}
		// snapshot exhausted: were entries inserted during the walk?
		if len(it.m) == 0 || it.rescan > 8 {
			return false
		}
		it.rescan++
		if it.seen == nil {
			it.seen = map[K]struct{}{}
		}
		for _, e := range it.queue {
			it.seen[e.k] = struct{}{}
		}
		var fresh []Entry[M, K, V]
		for _, e := range Entries(it.m) {
			if _, ok := it.seen[e.k]; !ok {
				it.seen[e.k] = struct{}{}
				if coin() {
					fresh = append(fresh, e)
				}
			}
		}
		if len(fresh) == 0 {
			return false
		}
		it.queue, it.i = fresh, -1
	}
}

func (it *MapIt[M, K, V]) KV() (K, V) { return it.k, it.v }

// ReflectIt replaces *reflect.MapIter for code that walks with MapRange (R4).
type ReflectIt struct {
	m      reflect.Value
	queue  []reflect.Value
	i      int
	seen   map[interface{}]struct{}
	rescan int
	k, v   reflect.Value
}

// MapRange replaces rv.MapRange().
func MapRange(m reflect.Value) *ReflectIt {
	return &ReflectIt{m: m, queue: OrderValues(m.MapKeys()), i: -1}
}

func (it *ReflectIt) Next() bool {
	for {
		it.i++
		if it.i < len(it.queue) {
			v := it.m.MapIndex(it.queue[it.i])
			if !v.IsValid() {
				continue
			}
			it.k, it.v = it.queue[it.i], v
			return true
		}
		if it.m.Len() == 0 || it.rescan > 8 {
			return false
		}
		it.rescan++
		if it.seen == nil {
			it.seen = map[interface{}]struct{}{}
		}
		hashable := func(k reflect.Value) (interface{}, bool) {
			if !k.CanInterface() || !k.Type().Comparable() {
				return nil, false
			}
			return k.Interface(), true
		}
		for _, k := range it.queue {
			if h, ok := hashable(k); ok {
				it.seen[h] = struct{}{}
			}
		}
		var fresh []reflect.Value
		for _, k := range OrderValues(it.m.MapKeys()) {
			h, ok := hashable(k)
			if !ok {
				continue
			}
			if _, dup := it.seen[h]; !dup {
				it.seen[h] = struct{}{}
				if coin() {
					fresh = append(fresh, k)
				}
			}
		}
		if len(fresh) == 0 {
			return false
		}
		it.queue, it.i = fresh, -1
	}
}

func (it *ReflectIt) Key() reflect.Value   { return it.k }
func (it *ReflectIt) Value() reflect.Value { return it.v }

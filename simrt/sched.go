// Package simrt is the simulator runtime that /verif/cmd/instrument links
// into a scratch copy of plush. It owns (1) which caller goroutine runs next
// at every synchronisation point, (2) how blocking on a mutex is resolved, and
// (3) the order in which every map in plush is iterated.
//
// It is copied to <scratch>/plush/simrt and must not import plush.
//
// Rules for this file (see DESIGN.md §2.3):
//   - every function that touches scheduler state carries //go:norace, so the
//     race detector never sees (and never orders by) the scheduler itself;
//   - baton hand-offs are wrapped in raceDisable/raceEnable so they add no
//     happens-before edge between tasks;
//   - nothing here reads a clock or an unseeded random source, except the
//     watchdog, which can only end the process with exit status 2.
package simrt

import (
	"fmt"
	"os"
	"runtime"
	"runtime/debug"
	"sync"
	"sync/atomic"
	"time"
)

// Chooser is the only source of scheduling decisions. The harness backs it
// with rapid draws made on the controller goroutine.
type Chooser interface {
	// Pick returns a value in [0,n). n >= 1.
	Pick(n int) int
}

// Policy selects how the controller turns Chooser draws into task picks.
type Policy int

const (
	Uniform Policy = iota
	Sticky
	RoundRobin
	PCT
)

func (p Policy) String() string {
	switch p {
	case Uniform:
		return "uniform"
	case Sticky:
		return "sticky"
	case RoundRobin:
		return "roundrobin"
	case PCT:
		return "pct"
	}
	return "?"
}

// goid returns the id of the calling goroutine (parsed from the first line of
// its stack trace: "goroutine 123 [running]:"; about a microsecond).
//
//go:norace
func goid() uint64 {
	var buf [40]byte
	n := runtime.Stack(buf[:], false)
	var id uint64
	for i := len("goroutine "); i < n && buf[i] >= '0' && buf[i] <= '9'; i++ {
		id = id*10 + uint64(buf[i]-'0')
	}
	return id
}

// StrayCalls counts simulator entry points reached, while a run was active, by
// a goroutine that is not the task holding the baton (a goroutine the code
// under test started outside any run and that is still alive). Such a caller is
// not a task: it gets the real primitive and never touches scheduler state.
var StrayCalls uint64

// TakeStrayCalls returns and resets StrayCalls (controller, between runs).
//
//go:norace
func TakeStrayCalls() uint64 {
	n := StrayCalls
	StrayCalls = 0
	return n
}

// me returns the task the calling goroutine IS, or nil. The baton holder is a
// global; identity is checked against the goroutine id so that a goroutine
// from outside the run can never impersonate the task that holds the baton.
//
//go:norace
func me() *task {
	t := cur
	if t == nil {
		return nil
	}
	if t.goid != goid() {
		StrayCalls++
		return nil
	}
	return t
}

// Locker is satisfied by *sync.Mutex and *sync.RWMutex.
type Locker interface {
	Lock()
	Unlock()
	TryLock() bool
}

// RLocker is satisfied by *sync.RWMutex.
type RLocker interface {
	RLock()
	RUnlock()
	TryRLock() bool
}

type task struct {
	id      int
	name    string
	fn      func()
	wake    chan struct{}
	done    bool
	blocked interface{} // lock object this task waits for, or nil
	site    string      // where the task is parked
	abort   bool
	panicV  interface{}
	panicS  string
	prio    int // PCT
	goid    uint64
	spawned bool // started by a go statement inside a task; PCT priority drawn by the controller when first seen

	// channel operations through the scheduler (chansim.go)
	cw           *chanWait
	parkedInChan bool
	syncA, syncB byte // addresses for the race detector's rendezvous edges
}

// Step is one scheduling decision: which task ran, from which yield site.
type Step struct {
	Task int
	Site string
}

// Sim is one simulated execution. Create, Go() tasks, Run().
type Sim struct {
	ch        Chooser
	policy    Policy
	stickyPct int
	pctDepth  int
	pctEst    int
	maxSteps  int
	keepTrace bool

	tasks []*task
	back  chan struct{}
	wg    sync.WaitGroup
	last  int

	pctChange []int

	// results
	Steps       int
	Switches    int
	Contentions int
	Spawned     int // tasks started by go statements inside tasks
	Leaked      int // spawned tasks still parked when every caller task had returned
	timerPolls  int
	Sig         uint64
	Trace       []Step
	Aborted     bool
}

// Options for NewSim.
type Options struct {
	Policy    Policy
	StickyPct int // Sticky: probability (percent) of staying with the same task
	PCTDepth  int // PCT: number of priority change points + 1
	PCTEst    int // PCT: estimated number of steps
	MaxSteps  int
	KeepTrace bool
}

var (
	cur    *task // task holding the baton, nil while the controller runs
	active *Sim
	// outsideMu serialises updates of shadow state (WaitGroup counts) made by goroutines that are not tasks
	// while no run is active: the controller between runs, and goroutines the code under test started there
	outsideMu sync.Mutex
)

// Deadlock is returned by Run when no task can run but some are blocked.
type Deadlock struct {
	Blocked []string
}

func (d *Deadlock) Error() string { return fmt.Sprintf("deadlock: blocked tasks %v", d.Blocked) }

// Inconclusive is returned by Run when it cannot tell a deadlock from a wait
// for something the simulator does not own (real timers).
type Inconclusive struct {
	Why     string
	Blocked []string
}

func (d *Inconclusive) Error() string { return fmt.Sprintf("inconclusive: %s: %v", d.Why, d.Blocked) }

// TimerSites is the number of timer-creating calls (time.After, NewTimer,
// NewTicker, AfterFunc, Tick) the instrumenter counted in the code under test;
// set by the harness from the instrumentation report.
var TimerSites int

// GoSites is the number of go statements the instrumenter rewrote in the code
// under test (rule R6); set by the harness. Sequential engines run their
// operations under a simulation only when it is non-zero.
var GoSites int

// StepLimit is returned by Run when the step budget is exhausted.
type StepLimit struct{ Steps int }

func (s *StepLimit) Error() string { return fmt.Sprintf("step limit %d exceeded", s.Steps) }

// TaskPanic is returned by Run when a task panicked.
type TaskPanic struct {
	Task  string
	Value interface{}
	Stack string
}

func (p *TaskPanic) Error() string { return fmt.Sprintf("task %s panicked: %v", p.Task, p.Value) }

//go:norace
func NewSim(ch Chooser, o Options) *Sim {
	if o.MaxSteps <= 0 {
		o.MaxSteps = 20000
	}
	if o.PCTDepth <= 0 {
		o.PCTDepth = 1
	}
	if o.PCTEst <= 0 {
		o.PCTEst = 100
	}
	return &Sim{ch: ch, policy: o.Policy, stickyPct: o.StickyPct, pctDepth: o.PCTDepth, pctEst: o.PCTEst,
		maxSteps: o.MaxSteps, keepTrace: o.KeepTrace, back: make(chan struct{}), last: -1, Sig: 1469598103934665603}
}

// Go registers a task. Must be called before Run, from the controller.
//
//go:norace
func (s *Sim) Go(name string, fn func()) {
	t := &task{id: len(s.tasks), name: name, fn: fn, wake: make(chan struct{}), site: "start"}
	s.tasks = append(s.tasks, t)
}

//go:norace
func (s *Sim) NumTasks() int { return len(s.tasks) }

// Spawn replaces a `go` statement in instrumented code (rule R6): inside a
// simulated run the new goroutine becomes a task of the scheduler (it runs only
// when picked), outside it is a plain goroutine. The real `go` statement below
// gives the race detector the fork edge parent -> child that Go guarantees;
// nothing orders the child's end with anything (as in Go).
//
//go:norace
func Spawn(fn func(), site string) {
	t := me()
	if t == nil || t.abort {
		go fn()
		return
	}
	s := active
	nt := &task{id: len(s.tasks), name: fmt.Sprintf("%s>go%d@%s", t.name, len(s.tasks), site), fn: fn,
		wake: make(chan struct{}), site: "start", spawned: true}
	s.tasks = append(s.tasks, nt)
	s.Spawned++
	s.wg.Add(1)
	go s.taskMain(nt)
	handOff(t, site)
}

type abortSentinel struct{}

//go:norace
func (s *Sim) taskMain(t *task) {
	defer s.wg.Done()
	defer s.taskExit(t)
	t.goid = goid()
	raceDisable()
	<-t.wake
	raceEnable()
	if t.abort {
		return
	}
	t.fn()
}

// taskExit is the deferred epilogue of every task (a named function, because
// //go:norace does not extend to closures).
//
//go:norace
func (s *Sim) taskExit(t *task) {
	if r := recover(); r != nil {
		if _, ok := r.(abortSentinel); !ok {
			t.panicV = r
			t.panicS = string(debug.Stack())
		}
	}
	t.done = true
	t.blocked = nil
	cur = nil
	raceDisable()
	s.back <- struct{}{}
	raceEnable()
}

// handOff gives the baton back to the controller and waits to be picked again.
//
//go:norace
func handOff(t *task, site string) {
	s := active
	t.site = site
	raceDisable()
	s.back <- struct{}{}
	<-t.wake
	raceEnable()
	if t.abort {
		panic(abortSentinel{})
	}
}

// Yield is a scheduling point with no other effect.
//
//go:norace
func Yield(site string) {
	t := me()
	if t == nil || t.abort {
		return
	}
	handOff(t, site)
}

// Lock acquires m under the scheduler: a switch point, then TryLock; if the
// lock is held the task is marked blocked until somebody unlocks m.
//
//go:norace
func Lock(m Locker, site string) {
	t := me()
	if t == nil {
		m.Lock()
		return
	}
	if t.abort {
		m.TryLock() // unwinding: best effort, never block
		return
	}
	handOff(t, site)
	pending := false
	for !m.TryLock() {
		active.Contentions++
		if _, rw := m.(RLocker); rw && !pending {
			// sync.RWMutex: a waiting writer blocks new readers (this is what
			// makes a recursive RLock deadlock when a writer arrives in between)
			pendingAdd(m, 1)
			pending = true
		}
		t.blocked = m
		handOff(t, site)
	}
	if pending {
		pendingAdd(m, -1)
	}
	heldAdd(m, 1)
}

// heldL: mutexes acquired (and not yet released) by tasks of the current run. A mutex still in it when every task
// has returned was LEAKED: nobody is left to release it and every later caller blocks for ever.
var heldL []assoc

//go:norace
func heldAdd(m interface{}, d int) {
	if active == nil {
		return
	}
	i := find(heldL, m)
	if i < 0 {
		if d < 0 {
			return
		}
		heldL = append(heldL, assoc{key: m})
		i = len(heldL) - 1
	}
	heldL[i].n += d
	if heldL[i].n < 0 {
		heldL[i].n = 0
	}
}

// SettleLocks leaves every mutex that a task of the finished run acquired in the unlocked state, whatever state it
// is in now (after a deadlock the unwinding tasks may or may not have released theirs). Call it after Run has
// returned, when no task is running any more.
//
//go:norace
func SettleLocks() {
	for i := range heldL {
		switch m := heldL[i].key.(type) {
		case *sync.Mutex:
			m.TryLock()
			m.Unlock()
		case Locker:
			// an RWMutex may be held by readers: releasing a write lock that is not held is fatal, so only the
			// free state is confirmed
			if m.TryLock() {
				m.Unlock()
			}
		}
	}
}

// HeldLocks returns the lockers that tasks of the finished run acquired more often than they released them
// (write locks as Locker; read locks count too). Call it after Run has returned.
//
//go:norace
func HeldLocks() []interface{} {
	var out []interface{}
	for i := range heldL {
		if heldL[i].n > 0 {
			out = append(out, heldL[i].key)
		}
	}
	return out
}

// Scheduler state touched by tasks must not live in Go maps: the runtime
// reports map accesses to the race detector even from //go:norace functions.
// Small association lists instead.
type assoc struct {
	key interface{}
	n   int
	ts  []*task
	o   *onceInfo
}

var pendingW []assoc

//go:norace
func find(l []assoc, key interface{}) int {
	for i := range l {
		if l[i].key == key {
			return i
		}
	}
	return -1
}

//go:norace
func pendingAdd(m interface{}, d int) {
	i := find(pendingW, m)
	if i < 0 {
		pendingW = append(pendingW, assoc{key: m})
		i = len(pendingW) - 1
	}
	pendingW[i].n += d
}

//go:norace
func pendingCount(m interface{}) int {
	if i := find(pendingW, m); i >= 0 {
		return pendingW[i].n
	}
	return 0
}

//go:norace
func unblock(m interface{}) {
	s := active
	if s == nil {
		return
	}
	for _, o := range s.tasks {
		if o.blocked == m {
			o.blocked = nil
		}
	}
}

// Unlock releases m, makes its waiters runnable and yields.
//
//go:norace
func Unlock(m Locker, site string) {
	t := me()
	if t != nil && t.abort {
		// unwinding after a deadlock / step limit: the lock may or may not be
		// held; unlocking an unlocked mutex is fatal, so settle it first
		if m.TryLock() {
			m.Unlock()
			return
		}
		m.Unlock()
		unblock(m)
		return
	}
	m.Unlock()
	if t == nil {
		return
	}
	heldAdd(m, -1)
	unblock(m)
	handOff(t, site)
}

//go:norace
func RLock(m RLocker, site string) {
	t := me()
	if t == nil {
		m.RLock()
		return
	}
	if t.abort {
		m.TryRLock()
		return
	}
	handOff(t, site)
	for pendingCount(m) > 0 || !m.TryRLock() {
		active.Contentions++
		t.blocked = m
		handOff(t, site)
	}
	heldAdd(m, 1)
}

//go:norace
func RUnlock(m RLocker, site string) {
	t := me() // identity first (see ChanClose)
	m.RUnlock()
	if t == nil {
		return
	}
	heldAdd(m, -1)
	unblock(m)
	if t.abort {
		return
	}
	handOff(t, site)
}

// TryLock / TryRLock under the scheduler: a switch point, then the real call.
//
//go:norace
func TryLock(m Locker, site string) bool {
	Yield(site)
	ok := m.TryLock()
	if ok && me() != nil {
		heldAdd(m, 1)
	}
	return ok
}

//go:norace
func TryRLock(m RLocker, site string) bool {
	Yield(site)
	ok := m.TryRLock()
	if ok && me() != nil {
		heldAdd(m, 1)
	}
	return ok
}

//go:norace
func (s *Sim) runnable(buf []*task) []*task {
	buf = buf[:0]
	for _, t := range s.tasks {
		if !t.done && t.blocked == nil {
			buf = append(buf, t)
		}
	}
	return buf
}

//go:norace
func (s *Sim) pick(rs []*task) *task {
	switch s.policy {
	case RoundRobin:
		for _, t := range rs {
			if t.id > s.last {
				return t
			}
		}
		return rs[0]
	case Sticky:
		if s.last >= 0 {
			for _, t := range rs {
				if t.id == s.last {
					if len(rs) == 1 || s.ch.Pick(100) < s.stickyPct {
						return t
					}
					break
				}
			}
		}
		return rs[s.ch.Pick(len(rs))]
	case PCT:
		for _, cp := range s.pctChange {
			if cp == s.Steps && s.last >= 0 {
				// demote the task that ran last below everybody
				min := 0
				for _, t := range s.tasks {
					if t.prio < min {
						min = t.prio
					}
				}
				s.tasks[s.last].prio = min - 1
			}
		}
		for _, t := range rs {
			if t.spawned && t.prio == 0 {
				t.prio = 1 + s.ch.Pick(len(s.tasks)+1)
			}
		}
		best := rs[0]
		for _, t := range rs[1:] {
			if t.prio > best.prio {
				best = t
			}
		}
		return best
	}
	return rs[s.ch.Pick(len(rs))]
}

// WatchdogSeconds bounds the real time one task may run between two yields.
var WatchdogSeconds = 120

//go:norace
func (s *Sim) step(t *task) {
	cur = t
	wdProgress.Add(1)
	wdStepping.Store(true)
	raceDisable()
	t.wake <- struct{}{}
	<-s.back
	raceEnable()
	wdStepping.Store(false)
	cur = nil
}

var (
	wdProgress atomic.Uint64
	wdStepping atomic.Bool
	wdOnce     sync.Once
)

// startWatchdog ends the process with status 2 (inconclusive, never a
// violation) when one task holds the baton for WatchdogSeconds of real time.
func startWatchdog() {
	wdOnce.Do(func() {
		go func() {
			last, since := uint64(0), time.Now()
			for {
				time.Sleep(2 * time.Second)
				p := wdProgress.Load()
				if p != last || !wdStepping.Load() {
					last, since = p, time.Now()
					continue
				}
				if time.Since(since) > time.Duration(WatchdogSeconds)*time.Second {
					fmt.Fprintf(os.Stderr, "VERIF-WATCHDOG a task did not yield within %ds (parked in an uninstrumented primitive or spinning)\n", WatchdogSeconds)
					buf := make([]byte, 1<<20)
					os.Stderr.Write(buf[:runtime.Stack(buf, true)])
					os.Exit(2)
				}
			}
		}()
	})
}

//go:norace
func (s *Sim) abortAll() {
	s.Aborted = true
	for _, t := range s.tasks {
		for !t.done {
			t.abort = true
			t.blocked = nil
			s.step(t)
		}
	}
}

// Run executes all tasks to completion under the scheduler. It returns nil,
// *Deadlock, *StepLimit or *TaskPanic. Must be called from the goroutine that
// created the Sim; while it runs no other goroutine may call into plush.
//
//go:norace
func (s *Sim) Run() error {
	if active != nil {
		panic("simrt: nested Sim.Run")
	}
	outsideMu.Lock() // barrier against a goroutine outside any run that is updating shadow state right now
	active = s
	heldL = nil
	outsideMu.Unlock()
	defer endRun()
	startWatchdog()

	if s.policy == PCT {
		// random distinct priorities, d-1 change points
		n := len(s.tasks)
		perm := make([]int, n)
		for i := range perm {
			perm[i] = i
		}
		for i := n - 1; i > 0; i-- {
			j := s.ch.Pick(i + 1)
			perm[i], perm[j] = perm[j], perm[i]
		}
		for i, t := range s.tasks {
			t.prio = perm[i] + 1
		}
		for i := 1; i < s.pctDepth; i++ {
			s.pctChange = append(s.pctChange, 1+s.ch.Pick(s.pctEst))
		}
	}

	s.wg.Add(len(s.tasks))
	for _, t := range s.tasks {
		go s.taskMain(t)
	}

	var err error
	buf := make([]*task, 0, len(s.tasks))
	for {
		rs := s.runnable(buf)
		if len(rs) == 0 {
			var bl []string
			rootBlocked, chanBlocked := false, false
			for _, t := range s.tasks {
				if !t.done {
					bl = append(bl, fmt.Sprintf("%s@%s", t.name, t.site))
					if !t.spawned {
						rootBlocked = true
					}
					if t.parkedInChan {
						chanBlocked = true
					}
				}
			}
			if len(bl) > 0 {
				switch {
				case !rootBlocked:
					// only goroutines started by the code under test are still parked and every
					// caller has returned: in Go that is a leaked goroutine, not a deadlock
					s.Leaked += len(bl)
				case chanBlocked && TimerSites > 0:
					// the code under test creates timers (real time, not simulated): a channel wait
					// may be served by one. Poll in real time, then give up without a verdict.
					if s.timerPolls < 3000 {
						s.timerPolls++
						time.Sleep(time.Millisecond)
						for _, t := range s.tasks {
							if !t.done && t.parkedInChan {
								t.blocked = nil
							}
						}
						continue
					}
					err = &Inconclusive{Why: "blocked on channels while the code under test uses real timers", Blocked: bl}
				default:
					err = &Deadlock{Blocked: bl}
				}
				s.abortAll()
			}
			break
		}
		if s.Steps >= s.maxSteps {
			err = &StepLimit{Steps: s.Steps}
			s.abortAll()
			break
		}
		t := s.pick(rs)
		if t.id != s.last && s.last >= 0 {
			s.Switches++
		}
		s.last = t.id
		s.Steps++
		s.Sig = mix(s.Sig, uint64(t.id)+1, strHash(t.site))
		if s.keepTrace {
			s.Trace = append(s.Trace, Step{Task: t.id, Site: t.site})
		}
		s.step(t)
	}
	s.wg.Wait() // real synchronisation: everything tasks did happens-before what follows
	if err == nil {
		for _, t := range s.tasks {
			if t.panicV != nil {
				return &TaskPanic{Task: t.name, Value: t.panicV, Stack: t.panicS}
			}
		}
	}
	return err
}

//go:norace
func endRun() {
	outsideMu.Lock()
	defer outsideMu.Unlock()
	active = nil
	cur = nil
	resetSyncSim()
	resetChanSim()
	pendingW = nil
}

// InTask reports whether the caller runs as a simulated task.
//
//go:norace
func InTask() bool { return me() != nil }

func mix(h, a, b uint64) uint64 {
	h ^= a
	h *= 1099511628211
	h ^= b
	h *= 1099511628211
	return h
}

func strHash(s string) uint64 {
	h := uint64(1469598103934665603)
	for i := 0; i < len(s); i++ {
		h ^= uint64(s[i])
		h *= 1099511628211
	}
	return h
}

var _ = runtime.GOOS

var tick uint64

// Tick returns the next value of a global event counter. Tasks call it (in
// baton order) to stamp invoke/return events without creating shared state
// the race detector could see.
//
//go:norace
func Tick() uint64 {
	tick++
	return tick
}

// ResetTick restarts the event counter (controller, between runs).
//
//go:norace
func ResetTick() { tick = 0 }

// IsAbort reports whether a recovered panic value is the scheduler's own
// unwinding signal; code that recovers panics inside a task must re-panic it.
func IsAbort(r interface{}) bool {
	_, ok := r.(abortSentinel)
	return ok
}

package simrt

import (
	"reflect"
	"unsafe"
)

// Simulated channel operations (instrumenter rule R1c): sends, receives,
// close, `range ch` and `select`. A task that would park in a channel
// operation is marked blocked under the scheduler, so a receive that nobody
// will ever satisfy (a "done" channel that is never closed) ends as a
// deterministic deadlock report. Buffered channels use the real channel with
// non-blocking attempts (the real operation gives the race detector the real
// happens-before edges); an unbuffered rendezvous between two tasks cannot
// happen for real under a baton (only one task runs), so the value is handed
// over through the scheduler and the two happens-before edges the real
// rendezvous creates (send -> receive completes, receive -> send completes)
// are given to the race detector explicitly:
//
//	the task that parks releases its own syncA before parking and acquires
//	its own syncB after it was served; the task that arrives and serves it
//	acquires the parker's syncA and releases the parker's syncB.
//
// Which of several ready select cases is taken is Go's pseudo-random choice;
// here it comes from the run's seeded stream (the one behind map order), and
// is always the first ready case under the canonical policy.

// selInfo is one communication a parked task is waiting for.
type selInfo struct {
	ptr  uintptr
	send bool
	val  interface{} // value offered (send)
}

// chanWait is what task.blocked holds while a task is parked in a channel
// operation or a select without default. A pointer, so that comparing
// task.blocked with lock objects never meets an uncomparable dynamic type.
type chanWait struct {
	cases   []selInfo
	fired   int         // index of the case a peer completed, -1 while none
	recvVal interface{} // value delivered by a peer (receive case)
}

//go:norace
func chanPtr(ch interface{}) uintptr {
	v := reflect.ValueOf(ch)
	if !v.IsValid() || v.IsNil() {
		return 0
	}
	return v.Pointer()
}

//go:norace
func waitOf(o *task) *chanWait {
	w, _ := o.blocked.(*chanWait)
	return w
}

// unblockChan makes every task parked on channel p runnable again so that it
// re-examines the channel (buffer space, data, close).
//
//go:norace
func unblockChan(p uintptr) {
	s := active
	if s == nil || p == 0 {
		return
	}
	for _, o := range s.tasks {
		if w := waitOf(o); w != nil && w.fired < 0 {
			for _, c := range w.cases {
				if c.ptr == p {
					o.blocked = nil
					break
				}
			}
		}
	}
}

// findPeer returns a parked task (and the index of its case) that waits to
// send on p (send=true) or to receive from p (send=false) and has not been
// served yet.
//
//go:norace
func findPeer(p uintptr, send bool, self *task) (*task, int) {
	s := active
	if s == nil || p == 0 {
		return nil, -1
	}
	for _, o := range s.tasks {
		if o == self || o.done {
			continue
		}
		// a served or woken task has blocked == nil; its wait record is kept in o.cw
		w := o.cw
		if w == nil || w.fired >= 0 || !o.parkedInChan {
			continue
		}
		for i, c := range w.cases {
			if c.ptr == p && c.send == send {
				return o, i
			}
		}
	}
	return nil, -1
}

// serve completes case i of the parked task o on behalf of the running task:
// for a parked sender the value is taken, for a parked receiver v is given.
//
//go:norace
func serve(o *task, i int, v interface{}) interface{} {
	w := o.cw
	w.fired = i
	out := w.cases[i].val
	if !w.cases[i].send {
		w.recvVal = v
	}
	o.blocked = nil
	return out
}

// parkChan parks the running task until a peer serves one of the cases or
// something happens on one of the channels. It returns the index of the case
// a peer completed, or -1 when the task was merely woken to look again.
//
//go:norace
func parkChan(t *task, cases []selInfo, site string) (int, interface{}) {
	w := &chanWait{cases: cases, fired: -1}
	raceRelease(unsafe.Pointer(&t.syncA))
	setPark(t, w)
	handOff(t, site)
	fired, v := clearPark(t, w)
	if fired >= 0 {
		raceAcquire(unsafe.Pointer(&t.syncB))
	}
	return fired, v
}

//go:norace
func setPark(t *task, w *chanWait) {
	active.Contentions++
	t.cw = w
	t.parkedInChan = true
	t.blocked = w
}

//go:norace
func clearPark(t *task, w *chanWait) (int, interface{}) {
	t.parkedInChan = false
	t.cw = nil
	t.blocked = nil
	return w.fired, w.recvVal
}

// meet gives the race detector the two edges of a rendezvous with the parked
// task o, as seen from the arriving task.
func meet(o *task) {
	raceAcquire(unsafe.Pointer(&o.syncA))
	raceRelease(unsafe.Pointer(&o.syncB))
}

//go:norace
func curTask() *task { return me() }

//go:norace
func aborting(t *task) bool { return t == nil || t.abort }

// tryRecvNow attempts the receive without blocking: data in the buffer, a
// closed channel, or a parked sender.
func tryRecvNow(t *task, rv reflect.Value, p uintptr) (v reflect.Value, ok, done bool) {
	if p == 0 {
		return reflect.Value{}, false, false // nil channel: never ready
	}
	if x, k := rv.TryRecv(); x.IsValid() {
		unblockChan(p) // a sender waiting for buffer space may proceed
		return x, k, true
	}
	if s, i := findPeer(p, true, t); s != nil {
		val := serve(s, i, nil)
		meet(s)
		return reflect.ValueOf(val), true, true
	}
	return reflect.Value{}, false, false
}

func asT[T any](v reflect.Value) T {
	var zero T
	if !v.IsValid() {
		return zero
	}
	if x, ok := v.Interface().(T); ok {
		return x
	}
	return zero
}

// bidirectional view of a channel value, for reflect.TrySend/TryRecv
func chanValue(ch interface{}) reflect.Value { return reflect.ValueOf(ch) }

// ChanRecv2 replaces `v, ok := <-ch`.
func ChanRecv2[T any](ch <-chan T, site string) (T, bool) {
	t := curTask()
	if t == nil {
		v, ok := <-ch
		return v, ok
	}
	if aborting(t) { // unwinding: never block
		select {
		case v, ok := <-ch:
			return v, ok
		default:
			var zero T
			return zero, false
		}
	}
	p := chanPtr(ch)
	rv := chanValue(ch)
	handOff(t, site)
	for {
		if x, ok, done := tryRecvNow(t, rv, p); done {
			return asT[T](x), ok
		}
		if fired, v := parkChan(t, []selInfo{{ptr: p}}, site); fired >= 0 {
			x, _ := v.(T)
			return x, true
		}
	}
}

// ChanRecv1 replaces `<-ch` used for one value (or none).
func ChanRecv1[T any](ch <-chan T, site string) T {
	v, _ := ChanRecv2(ch, site)
	return v
}

// ChanSend replaces `ch <- v`.
func ChanSend[T any](ch chan<- T, v T, site string) {
	t := curTask()
	if t == nil {
		ch <- v
		return
	}
	if aborting(t) { // unwinding: never block
		select {
		case ch <- v:
		default:
		}
		return
	}
	p := chanPtr(ch)
	sv := chanValue(ch)
	handOff(t, site)
	for {
		if sendDirect(t, ch, sv, p, v) {
			handOff(t, site)
			return
		}
		if fired, _ := parkChan(t, []selInfo{{ptr: p, send: true, val: v}}, site); fired >= 0 {
			return
		}
	}
}

// sendDirect: parked receiver first, then the real channel (typed send, so a
// send-only channel works and a closed channel panics as in Go).
func sendDirect[T any](t *task, ch chan<- T, sv reflect.Value, p uintptr, v T) bool {
	if p == 0 {
		return false
	}
	if r, i := findPeer(p, false, t); r != nil {
		serve(r, i, v)
		meet(r)
		return true
	}
	select {
	case ch <- v:
		unblockChan(p)
		return true
	default:
	}
	return false
}

// ChanClose replaces close(ch).
func ChanClose[T any](ch chan<- T, site string) {
	t := curTask() // identity first: after the real close a goroutine outside the run may already be racing with the next run
	close(ch)
	if t == nil {
		return
	}
	noteClosed(chanPtr(ch))
	unblockChan(chanPtr(ch))
	if t.abort {
		return
	}
	handOff(t, site)
}

// ---- select ----

// SelCase is one communication clause of a rewritten select statement.
type SelCase interface {
	info() selInfo
	value() reflect.Value
	// sendNow performs a non-blocking typed send on the real channel
	sendNow() bool
}

// RCase is `case [x :=] <-ch`.
type RCase[T any] struct{ ch <-chan T }

// SCase is `case ch <- v`.
type SCase[T any] struct {
	ch chan<- T
	v  T
}

func RecvCase[T any](ch <-chan T) RCase[T]      { return RCase[T]{ch} }
func SendCase[T any](ch chan<- T, v T) SCase[T] { return SCase[T]{ch, v} }

func (c RCase[T]) info() selInfo        { return selInfo{ptr: chanPtr(c.ch)} }
func (c RCase[T]) value() reflect.Value { return reflect.ValueOf(c.ch) }
func (c RCase[T]) sendNow() bool        { return false }
func (c SCase[T]) info() selInfo        { return selInfo{ptr: chanPtr(c.ch), send: true, val: c.v} }
func (c SCase[T]) value() reflect.Value { return reflect.ValueOf(c.ch) }
func (c SCase[T]) sendNow() bool {
	select {
	case c.ch <- c.v:
		return true
	default:
		return false
	}
}

// SelResult is what Select decided: Index is the clause taken (-1: default).
type SelResult struct {
	Index int
	val   interface{}
	ok    bool
}

// SelRecv2 / SelRecv1 give the value received by clause c.
func SelRecv2[T any](c RCase[T], r *SelResult) (T, bool) {
	x, _ := r.val.(T)
	return x, r.ok
}

func SelRecv1[T any](c RCase[T], r *SelResult) T {
	x, _ := r.val.(T)
	return x
}

// ready reports, without consuming anything, whether clause c could proceed now.
func ready(t *task, c SelCase) bool {
	in := c.info()
	if in.ptr == 0 {
		return false
	}
	rv := c.value()
	if in.send {
		if r, _ := findPeer(in.ptr, false, t); r != nil {
			return true
		}
		return rv.Len() < rv.Cap() || isClosed(in.ptr)
	}
	if rv.Len() > 0 || isClosed(in.ptr) {
		return true
	}
	if s, _ := findPeer(in.ptr, true, t); s != nil {
		return true
	}
	return false
}

// closed channels are remembered (association list, reset per run) so that a
// select can see "ready because closed" without consuming a value; channels
// closed outside the simulated run are found by probing when empty.
var closedL []uintptr

//go:norace
func noteClosed(p uintptr) { closedL = append(closedL, p) }

//go:norace
func isClosedNoted(p uintptr) bool {
	for _, q := range closedL {
		if q == p {
			return true
		}
	}
	return false
}

//go:norace
func resetChanSim() { closedL = nil }

func isClosed(p uintptr) bool { return isClosedNoted(p) }

// Select replaces a select statement.
func Select(site string, hasDefault bool, cases ...SelCase) *SelResult {
	t := curTask()
	if t == nil {
		return realSelect(hasDefault, cases)
	}
	if aborting(t) { // unwinding: never block
		return realSelect(true, cases)
	}
	handOff(t, site)
	infos := make([]selInfo, len(cases))
	for i, c := range cases {
		infos[i] = c.info()
	}
	for {
		var rd []int
		for i, c := range cases {
			if ready(t, c) {
				rd = append(rd, i)
			} else if in := infos[i]; !in.send && in.ptr != 0 && c.value().Len() == 0 {
				// empty and not known to be closed: probe (consumes nothing when it does not succeed
				// with a value; a value can only appear here if the channel was closed outside the run)
				if x, ok := c.value().TryRecv(); x.IsValid() {
					if !ok {
						noteClosed(in.ptr)
						rd = append(rd, i)
					} else {
						unblockChan(in.ptr)
						return &SelResult{Index: i, val: x.Interface(), ok: true}
					}
				}
			}
		}
		if len(rd) > 0 {
			i := rd[pickN(len(rd))]
			in := infos[i]
			if in.send {
				if r, k := findPeer(in.ptr, false, t); r != nil {
					serve(r, k, in.val)
					meet(r)
				} else if cases[i].sendNow() { // panics on a closed channel, as in Go
					unblockChan(in.ptr)
				} else {
					continue
				}
				res := &SelResult{Index: i}
				handOff(t, site)
				return res
			}
			if x, ok, done := tryRecvNow(t, cases[i].value(), in.ptr); done {
				var v interface{}
				if x.IsValid() {
					v = x.Interface()
				}
				return &SelResult{Index: i, val: v, ok: ok}
			}
			continue
		}
		if hasDefault {
			return &SelResult{Index: -1}
		}
		if fired, v := parkChan(t, infos, site); fired >= 0 {
			return &SelResult{Index: fired, val: v, ok: !infos[fired].send}
		}
	}
}

// realSelect: outside a simulated run (or while unwinding) use reflect.Select.
func realSelect(hasDefault bool, cases []SelCase) *SelResult {
	rc := make([]reflect.SelectCase, 0, len(cases)+1)
	for _, c := range cases {
		in := c.info()
		if in.send {
			x := reflect.ValueOf(in.val)
			if !x.IsValid() {
				x = reflect.Zero(c.value().Type().Elem())
			}
			rc = append(rc, reflect.SelectCase{Dir: reflect.SelectSend, Chan: c.value(), Send: x})
		} else {
			rc = append(rc, reflect.SelectCase{Dir: reflect.SelectRecv, Chan: c.value()})
		}
	}
	if hasDefault {
		rc = append(rc, reflect.SelectCase{Dir: reflect.SelectDefault})
	}
	i, x, ok := reflect.Select(rc)
	if hasDefault && i == len(cases) {
		return &SelResult{Index: -1}
	}
	var v interface{}
	if x.IsValid() {
		v = x.Interface()
	}
	return &SelResult{Index: i, val: v, ok: ok}
}

// pickN draws from the run's seeded stream (advanced in baton order only).
//
//go:norace
func pickN(n int) int {
	if n <= 1 || mapPolicy == Canonical {
		return 0
	}
	mapCalls++
	return int(splitmix(mapSeed^(mapCalls*0xa0761d6478bd642f)) % uint64(n))
}

package simrt

import (
	"reflect"
	"unsafe"
)

// Simulated channel operations (instrumenter rule R1c): plain sends, plain
// receives and close outside select statements. A task that would park in a
// channel operation is marked blocked under the scheduler, so a receive that
// nobody will ever satisfy (a "done" channel that is never closed) ends as a
// deterministic deadlock report. Buffered channels use the real channel with
// non-blocking attempts; an unbuffered rendezvous between two tasks cannot
// happen for real under a baton (only one task runs), so the value is handed
// over through the scheduler and the happens-before edge the real rendezvous
// would create is given to the race detector explicitly.

type chanWait struct {
	ptr  uintptr
	send bool
}

//go:norace
func chanPtr(ch interface{}) uintptr { return reflect.ValueOf(ch).Pointer() }

//go:norace
func unblockChan(p uintptr) {
	s := active
	if s == nil {
		return
	}
	for _, o := range s.tasks {
		if w, ok := o.blocked.(chanWait); ok && w.ptr == p {
			o.blocked = nil
		}
	}
}

//go:norace
func findWaiter(p uintptr, send bool) *task {
	s := active
	if s == nil {
		return nil
	}
	for _, o := range s.tasks {
		if w, ok := o.blocked.(chanWait); ok && w.ptr == p && w.send == send && !o.mailTaken && (send == o.hasMail) {
			return o
		}
	}
	return nil
}

// ChanRecv2 replaces `v, ok := <-ch`.
func ChanRecv2[T any](ch <-chan T, site string) (T, bool) {
	t := cur
	if t == nil || t.abort {
		v, ok := <-ch
		return v, ok
	}
	p := chanPtr(ch)
	handOff(t, site)
	for {
		select {
		case v, ok := <-ch:
			unblockChan(p) // a sender waiting for buffer space may proceed
			return v, ok
		default:
		}
		if s := findWaiter(p, true); s != nil {
			// a sender is parked with its value: rendezvous through the scheduler
			v := s.mail.(T)
			takeMail(s)
			raceAcquire(unsafe.Pointer(s))
			return v, true
		}
		park(t, chanWait{p, false}, site)
		if t.hasMail {
			// a sender delivered directly while we were parked
			v := t.mail.(T)
			clearMail(t)
			raceAcquire(unsafe.Pointer(t))
			return v, true
		}
	}
}

// ChanRecv1 replaces `<-ch` used for one value (or none).
func ChanRecv1[T any](ch <-chan T, site string) T {
	v, _ := ChanRecv2(ch, site)
	return v
}

// ChanSend replaces `ch <- v`.
func ChanSend[T any](ch chan<- T, v T, site string) {
	t := cur
	if t == nil || t.abort {
		ch <- v
		return
	}
	p := chanPtr(ch)
	handOff(t, site)
	for {
		if r := findWaiter(p, false); r != nil && !r.hasMail {
			// a receiver is parked: hand the value over
			raceRelease(unsafe.Pointer(r))
			giveMail(r, v)
			handOff(t, site)
			return
		}
		sent := false
		func() {
			select {
			case ch <- v: // buffer space (or panics: send on closed channel, as in Go)
				sent = true
			default:
			}
		}()
		if sent {
			unblockChan(p)
			return
		}
		raceRelease(unsafe.Pointer(t))
		offerMail(t, v)
		park(t, chanWait{p, true}, site)
		if mailWasTaken(t) {
			return
		}
		clearMail(t)
	}
}

// ChanClose replaces close(ch).
func ChanClose[T any](ch chan<- T, site string) {
	close(ch)
	t := cur
	if t == nil {
		return
	}
	unblockChan(chanPtr(ch))
	if t.abort {
		return
	}
	handOff(t, site)
}

//go:norace
func park(t *task, w chanWait, site string) {
	active.Contentions++
	t.blocked = w
	handOff(t, site)
}

//go:norace
func giveMail(r *task, v interface{}) {
	r.mail, r.hasMail = v, true
	r.blocked = nil
}

//go:norace
func offerMail(t *task, v interface{}) {
	t.mail, t.hasMail, t.mailTaken = v, true, false
}

//go:norace
func takeMail(s *task) {
	s.mailTaken = true
	s.blocked = nil
}

//go:norace
func mailWasTaken(t *task) bool {
	if t.mailTaken {
		t.mail, t.hasMail, t.mailTaken = nil, false, false
		return true
	}
	return false
}

//go:norace
func clearMail(t *task) { t.mail, t.hasMail, t.mailTaken = nil, false, false }

#!/usr/bin/env python3
"""Generates the hand-written sensitivity catalogue (DESIGN §7.2) as patches against /repo HEAD.
Each entry: (name, property, file, old, new). Run: sensitivity/make.py  -> sensitivity/<name>.diff + index.json"""
import json, os, subprocess, sys, tempfile
HERE = os.path.dirname(os.path.abspath(__file__))
M = [
 ("c05-call-error-not-wrapped", "C05", "compiler.go", 'return nil, fmt.Errorf("could not call %s function: %w", node.Function, e)', 'return nil, fmt.Errorf("could not call %s function: %v", node.Function, e)'),
 ("c05-line-prefix-not-wrapped", "C05", "compiler.go", 'return "", fmt.Errorf("line %d: %w", s.T().LineNumber, err)', 'return "", fmt.Errorf("line %d: %v", s.T().LineNumber, err)'),
 ("c05-if-swallows-any-error", "C05", "compiler.go", '''	con, err := c.evalExpression(node.Condition)
	if err != nil && !c.tolerated(err, stmt) {
		return nil, err
	}
''', '''	con, _ := c.evalExpression(node.Condition)
	_ = stmt
'''),
 ("c05-not-swallows-any-error", "C05", "compiler.go", '''	res, err := c.evalExpression(node.Right)
	if err != nil && !c.tolerated(err, stmt) {
		return nil, err
	}
''', '''	res, _ := c.evalExpression(node.Right)
	_ = stmt
'''),
 ("c05-array-literal-drops-error", "C05", "compiler.go", '''		i, err := c.evalExpression(e)
		if err != nil {
			return nil, err
		}

		res = append(res, i)''', '''		i, _ := c.evalExpression(e)

		res = append(res, i)'''),
 ("c05-let-drops-error", "C05", "compiler.go", '''	v, err := c.evalExpression(node.Value)
	if err != nil {
		return nil, err
	}

	c.ctx.Set(node.Name.Value, v)''', '''	v, _ := c.evalExpression(node.Value)

	c.ctx.Set(node.Name.Value, v)'''),
 ("c05-htmlescape-ignores-block-error", "C05", "helpers/escapes/html.go", '''	if err != nil {
		return "", err
	}''', '''	_ = err'''),
 ("c05-blockwith-drops-error", "C05", "helper_context.go", '''	i, err := h.compiler.evalBlockStatement(h.block)
	if err != nil {
		return "", err
	}''', '''	i, _ := h.compiler.evalBlockStatement(h.block)'''),
 ("c05-partial-render-error-ignored", "C05", "partial_helper.go", '''	if part, err = Render(part, help.Context); err != nil {
		return "", err
	}''', '''	part, _ = Render(part, help.Context)'''),
 ("c15-dquote-string-newlines-not-counted", "C15", "lexer/lexer.go", '''	for l.ch != 0 {
		l.readChar()
		// check for quote escapes''', '''	for l.ch != 0 {
		l.readChar()
		if l.ch == '\\n' {
			l.curLine--
		}
		// check for quote escapes'''),
 ("c15-prefix-dropped", "C15", "compiler.go", 'return "", fmt.Errorf("line %d: %w", s.T().LineNumber, err)', 'return "", fmt.Errorf("%w", err)'),
 ("c15-always-top-level-statement", "C15", "compiler.go", '''			s := stmt
			if c.curStmt != nil {
				s = c.curStmt
			}''', '''			s := stmt'''),
 ("c15-inner-statement-not-recorded", "C15", "compiler.go", '''func (c *compiler) evalStatement(node ast.Statement) (interface{}, error) {
	c.curStmt = node
''', '''func (c *compiler) evalStatement(node ast.Statement) (interface{}, error) {
'''),
 ("c13-cache-key-trimmed", "C13", "plush.go", '''	t, ok := cache[input]
	if ok {
		return t, nil
	}

	t, err := NewTemplate(input)
	if err != nil {
		return t, err
	}

	cache[input] = t''', '''	t, ok := cache[strings.TrimSpace(input)]
	if ok {
		return t, nil
	}

	t, err := NewTemplate(input)
	if err != nil {
		return t, err
	}

	cache[strings.TrimSpace(input)] = t'''),
 ("c13-arguments-grow-during-call", "C13", "compiler.go", '''	if len(args) < rtNumIn {
			// missing some args, let's see if we can figure out what they are.''', '''	if len(args) < rtNumIn && len(node.Arguments) == 1 {
			node.Arguments = append(node.Arguments, nil)[:1:1]
		}
		if len(args) < rtNumIn {
			// missing some args, let's see if we can figure out what they are.'''),
 ("c14-set-without-lock", "C14", "context.go", '''	c.moot.Lock()
	defer c.moot.Unlock()

	c.data[key] = value''', '''	c.data[key] = value'''),
 ("c14-parse-without-lock", "C14", "plush.go", '''	moot.Lock()
	defer moot.Unlock()

	t, ok := cache[input]''', '''	t, ok := cache[input]'''),
 ("c14-cacheset-without-lock", "C14", "plush.go", '''	moot.Lock()
	defer moot.Unlock()

	cache[key] = t''', '''	cache[key] = t'''),
 ("c14-value-without-lock", "C14", "context.go", '''		c.moot.Lock()
		v, ok := c.data[s]
		c.moot.Unlock()''', '''		v, ok := c.data[s]'''),
 ("c10-new-aliases-parent-map", "C10", "context.go", '''	cc := NewContextWithOuter(map[string]interface{}{}, c)
''', '''	cc := NewContextWithOuter(c.data, c)
'''),
 ("c10-value-outer-first", "C10", "context.go", '''		if ok {
			return v
		}
		if c.outer != nil {
			return c.outer.Value(s)
		}''', '''		if c.outer != nil {
			if ov := c.outer.Value(s); ov != nil {
				return ov
			}
		}
		if ok {
			return v
		}'''),
 ("c10-has-by-presence", "C10", "context.go", '''	return c.Value(key) != nil
}''', '''	if _, ok := c.data[key]; ok {
		return true
	}
	return c.Value(key) != nil
}'''),
 ("c10-injection-overrides-user-values", "C10", "context.go", '''	for k, v := range Helpers.All() {
		if !c.Has(k) {
			c.Set(k, v)
		}
	}''', '''	for k, v := range Helpers.All() {
		if _, isFunc := c.data[k].(func(string) string); !isFunc {
			c.Set(k, v)
		}
	}'''),
]
def main():
    wt = tempfile.mkdtemp(prefix="sens-", dir="/tmp"); os.rmdir(wt)
    subprocess.check_call(["git", "-C", "/repo", "worktree", "add", "-q", "--detach", wt, "HEAD"])
    index = []
    try:
        for name, prop, f, old, new in M:
            p = os.path.join(wt, f)
            s = open(p).read()
            if s.count(old) != 1:
                print("SKIP %s: pattern found %d times" % (name, s.count(old))); continue
            s2 = s.replace(old, new)
            if "strings.TrimSpace" in new and '"strings"' not in s2:
                s2 = s2.replace('import (\n', 'import (\n\t"strings"\n', 1)
            open(p, "w").write(s2)
            env = dict(os.environ, GOFLAGS="-mod=mod", GOPROXY="off", GOSUMDB="off", GOTOOLCHAIN="local")
            r = subprocess.run("gofmt -w %s && go build ./... && go build -tags verif ./..." % f, shell=True, cwd=wt, env=env, capture_output=True, text=True)
            if r.returncode != 0:
                print("SKIP %s: does not build: %s" % (name, r.stderr[-300:]))
            else:
                d = subprocess.run(["git", "-C", wt, "diff"], capture_output=True, text=True).stdout
                open(os.path.join(HERE, name + ".diff"), "w").write(d)
                t = subprocess.run("go test -vet=off -count=1 ./... 2>&1 | grep -c '^---\\|^FAIL' ", shell=True, cwd=wt, env=env, capture_output=True, text=True).stdout.strip()
                index.append(dict(name=name, property=prop, existing_suite_failures=int(t or 0)))
                print("ok %s (suite failure lines: %s)" % (name, t))
            subprocess.check_call(["git", "-C", wt, "checkout", "-q", "--", "."])
    finally:
        subprocess.call(["git", "-C", "/repo", "worktree", "remove", "--force", wt])
    json.dump(index, open(os.path.join(HERE, "index.json"), "w"), indent=1)
main()

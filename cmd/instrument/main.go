// Command instrument rewrites a scratch copy of gobuffalo/plush so that every
// synchronisation point and every map iteration goes through the simulator
// runtime (package simrt, copied next to it). See /verif/DESIGN.md §2.2.
//
//	instrument -dir <scratch copy of /repo> -report <json>
//
// Rewrites (typed, via go/packages):
//
//	R1  x.Lock()/Unlock()/RLock()/RUnlock()/TryLock()/TryRLock() on sync.Mutex / sync.RWMutex
//	      -> simrt.Lock(&x, "file:line") ...
//	R2  any other call into sync or sync/atomic -> simrt.Yield("file:line") inserted before the statement
//	R3  for k, v := range <map>  -> for _, e := range simrt.Entries(<map>) { k, v, ok := e.KV(); if !ok {continue}; ... }
//	R4  rv.MapKeys() (reflect.Value) -> simrt.OrderValues(rv.MapKeys())
//	R5  sync.Map.Range, time.Now/Sleep/After/..., math/rand, os.Getenv: counted only
//	R6  go f(x) -> simrt.Spawn(func() { f(x) }, site): goroutines started by plush become tasks of the scheduler
//	R7  p.Get() / p.Put(x) on sync.Pool -> simrt.PoolGet / PoolPut: what Get returns is the simulator's seeded choice
//	R1c chan send / receive / close / range ch / select -> simrt.ChanSend / ChanRecv / ChanClose / Select
//
// Exit status: 0 ok, 2 anything else (never 1: 1 is reserved for violations).
package main

import (
	"encoding/json"
	"flag"
	"fmt"
	"go/ast"
	"go/format"
	"go/printer"
	"go/token"
	"go/types"
	"os"
	"path/filepath"
	"sort"
	"strings"

	"golang.org/x/tools/go/ast/astutil"
	"golang.org/x/tools/go/packages"
)

type site struct {
	Rule string `json:"rule"`
	Pos  string `json:"pos"`
	What string `json:"what"`
}

type report struct {
	Module string         `json:"module"`
	Counts map[string]int `json:"counts"`
	Sites  []site         `json:"sites"`
	Files  int            `json:"files_rewritten"`
}

var (
	rep     = report{Counts: map[string]int{}}
	rootDir string
)

func die(format string, a ...interface{}) {
	fmt.Fprintf(os.Stderr, "instrument: "+format+"\n", a...)
	os.Exit(2)
}

func add(rule string, fset *token.FileSet, pos token.Pos, what string) string {
	p := fset.Position(pos)
	rel, err := filepath.Rel(rootDir, p.Filename)
	if err != nil {
		rel = p.Filename
	}
	s := fmt.Sprintf("%s:%d", rel, p.Line)
	rep.Counts[rule]++
	rep.Sites = append(rep.Sites, site{Rule: rule, Pos: s, What: what})
	return s
}

func main() {
	dir := flag.String("dir", "", "scratch copy of the repository (rewritten in place)")
	out := flag.String("report", "", "write a JSON report here")
	tags := flag.String("tags", "verif", "build tags")
	flag.Parse()
	if *dir == "" {
		die("-dir required")
	}
	abs, err := filepath.Abs(*dir)
	if err != nil {
		die("%v", err)
	}
	rootDir = abs

	modBytes, err := os.ReadFile(filepath.Join(abs, "go.mod"))
	if err != nil {
		die("%v", err)
	}
	module := ""
	for _, l := range strings.Split(string(modBytes), "\n") {
		l = strings.TrimSpace(l)
		if strings.HasPrefix(l, "module ") {
			module = strings.TrimSpace(strings.TrimPrefix(l, "module "))
			break
		}
	}
	if module == "" {
		die("no module line in go.mod")
	}
	rep.Module = module
	simrtPath := module + "/simrt"

	cfg := &packages.Config{
		Mode:       packages.NeedName | packages.NeedFiles | packages.NeedCompiledGoFiles | packages.NeedSyntax | packages.NeedTypes | packages.NeedTypesInfo | packages.NeedImports | packages.NeedDeps,
		Dir:        abs,
		BuildFlags: []string{"-tags=" + *tags},
		Tests:      false,
	}
	pkgs, err := packages.Load(cfg, "./...")
	if err != nil {
		die("load: %v", err)
	}
	bad := false
	for _, p := range pkgs {
		for _, e := range p.Errors {
			fmt.Fprintf(os.Stderr, "instrument: %s: %v\n", p.PkgPath, e)
			bad = true
		}
	}
	if bad {
		die("package errors")
	}

	for _, p := range pkgs {
		if p.PkgPath == simrtPath || strings.HasPrefix(p.PkgPath, simrtPath+"/") {
			continue
		}
		for _, f := range p.Syntax {
			name := p.Fset.Position(f.Pos()).Filename
			if !strings.HasPrefix(name, abs+string(filepath.Separator)) || strings.HasSuffix(name, "_test.go") {
				continue
			}
			if rewriteFile(p, f, simrtPath) {
				writeFile(p.Fset, f, name)
				rep.Files++
			}
		}
	}

	sort.Slice(rep.Sites, func(i, j int) bool {
		if rep.Sites[i].Rule != rep.Sites[j].Rule {
			return rep.Sites[i].Rule < rep.Sites[j].Rule
		}
		return rep.Sites[i].Pos < rep.Sites[j].Pos
	})
	if *out != "" {
		b, _ := json.MarshalIndent(rep, "", " ")
		if err := os.WriteFile(*out, b, 0o644); err != nil {
			die("%v", err)
		}
	}
	fmt.Fprintf(os.Stderr, "instrument: %d files rewritten, counts %v\n", rep.Files, rep.Counts)
}

func writeFile(fset *token.FileSet, f *ast.File, name string) {
	// format.Node misplaces free-floating comments after statements were
	// replaced: keep only directives that matter to the build.
	var keep []*ast.CommentGroup
	for _, cg := range f.Comments {
		var list []*ast.Comment
		for _, c := range cg.List {
			if strings.HasPrefix(c.Text, "//go:") || strings.HasPrefix(c.Text, "// +build") {
				list = append(list, c)
			}
		}
		if len(list) > 0 {
			keep = append(keep, &ast.CommentGroup{List: list})
		}
	}
	f.Comments = keep
	out, err := os.Create(name)
	if err != nil {
		die("%v", err)
	}
	defer out.Close()
	if err := format.Node(out, fset, f); err != nil {
		if dbg, e2 := os.Create(name + ".broken"); e2 == nil {
			_ = printer.Fprint(dbg, fset, f)
			dbg.Close()
		}
		die("format %s: %v", name, err)
	}
}

func isNamed(t types.Type, pkg, name string) bool {
	if p, ok := t.(*types.Pointer); ok {
		t = p.Elem()
	}
	n, ok := t.(*types.Named)
	if !ok {
		return false
	}
	o := n.Obj()
	return o != nil && o.Pkg() != nil && o.Pkg().Path() == pkg && o.Name() == name
}

// calleeFunc resolves the *types.Func a call invokes (methods and package functions).
func calleeFunc(info *types.Info, call *ast.CallExpr) *types.Func {
	switch fun := ast.Unparen(call.Fun).(type) {
	case *ast.SelectorExpr:
		if sel, ok := info.Selections[fun]; ok {
			if f, ok := sel.Obj().(*types.Func); ok {
				return f
			}
			return nil
		}
		if f, ok := info.Uses[fun.Sel].(*types.Func); ok {
			return f
		}
	case *ast.Ident:
		if f, ok := info.Uses[fun].(*types.Func); ok {
			return f
		}
	case *ast.IndexExpr: // generic instantiation f[T](...)
		if id, ok := fun.X.(*ast.Ident); ok {
			if f, ok := info.Uses[id].(*types.Func); ok {
				return f
			}
		}
		if se, ok := fun.X.(*ast.SelectorExpr); ok {
			if f, ok := info.Uses[se.Sel].(*types.Func); ok {
				return f
			}
		}
	}
	return nil
}

func recvNamed(f *types.Func) (pkg, name string) {
	sig, ok := f.Type().(*types.Signature)
	if !ok || sig.Recv() == nil {
		return "", ""
	}
	t := sig.Recv().Type()
	if p, ok := t.(*types.Pointer); ok {
		t = p.Elem()
	}
	if n, ok := t.(*types.Named); ok && n.Obj() != nil && n.Obj().Pkg() != nil {
		return n.Obj().Pkg().Path(), n.Obj().Name()
	}
	return "", ""
}

var lockOps = map[string]string{
	"Lock": "Lock", "Unlock": "Unlock", "RLock": "RLock", "RUnlock": "RUnlock",
	"TryLock": "TryLock", "TryRLock": "TryRLock",
}

// blockingOps: other sync primitives whose blocking is simulated (type.method -> simrt function).
var blockingOps = map[string]string{
	"Cond.Wait": "CondWait", "Cond.Signal": "CondSignal", "Cond.Broadcast": "CondBroadcast",
	"Once.Do":       "OnceDo",
	"WaitGroup.Add": "WGAdd", "WaitGroup.Done": "WGDone", "WaitGroup.Wait": "WGWait",
}

func lit(s string) *ast.BasicLit {
	return &ast.BasicLit{Kind: token.STRING, Value: fmt.Sprintf("%q", s)}
}

func simCall(fn string, args ...ast.Expr) *ast.CallExpr {
	return &ast.CallExpr{Fun: &ast.SelectorExpr{X: ast.NewIdent("simrt"), Sel: ast.NewIdent(fn)}, Args: args}
}

// lockReceiver builds an expression of pointer type for the mutex a method
// value x.Lock is selected from, following embedded fields.
func lockReceiver(info *types.Info, se *ast.SelectorExpr) ast.Expr {
	sel := info.Selections[se]
	var x ast.Expr = se.X
	t := info.TypeOf(se.X)
	if sel != nil && len(sel.Index()) > 1 {
		// promoted through embedded fields: walk the path
		idx := sel.Index()
		for _, i := range idx[:len(idx)-1] {
			if p, ok := t.Underlying().(*types.Pointer); ok {
				t = p.Elem()
			}
			st, ok := t.Underlying().(*types.Struct)
			if !ok {
				return nil
			}
			fld := st.Field(i)
			x = &ast.SelectorExpr{X: x, Sel: ast.NewIdent(fld.Name())}
			t = fld.Type()
		}
	}
	if _, ok := t.Underlying().(*types.Pointer); ok {
		return x
	}
	return &ast.UnaryExpr{Op: token.AND, X: x}
}

func goRewritable(info *types.Info, n *ast.GoStmt) bool {
	call := n.Call
	if tv, ok := info.Types[call.Fun]; ok && (tv.IsBuiltin() || tv.IsType()) {
		return false
	}
	if len(call.Args) == 1 {
		if _, ok := info.TypeOf(call.Args[0]).(*types.Tuple); ok {
			return false
		}
	}
	return true
}

func selectRewritable(n *ast.SelectStmt) bool {
	for _, cs := range n.Body.List {
		cc, ok := cs.(*ast.CommClause)
		if !ok {
			return false
		}
		switch st := cc.Comm.(type) {
		case nil, *ast.SendStmt:
		case *ast.ExprStmt:
			if u, ok := ast.Unparen(st.X).(*ast.UnaryExpr); !ok || u.Op != token.ARROW {
				return false
			}
		case *ast.AssignStmt:
			if len(st.Rhs) != 1 {
				return false
			}
			if u, ok := ast.Unparen(st.Rhs[0]).(*ast.UnaryExpr); !ok || u.Op != token.ARROW {
				return false
			}
		default:
			return false
		}
	}
	return true
}

// for v := range ch {B}  ->  for simCh_ := ch; ; { v, ok := simrt.ChanRecv2(simCh_, site); if !ok {break}; B }
func rewriteChanRange(fset *token.FileSet, n *ast.RangeStmt, tmp *int) ast.Stmt {
	s := add("R1", fset, n.Pos(), "range over channel")
	*tmp++
	chv := ast.NewIdent(fmt.Sprintf("simCh%d_", *tmp))
	okv := ast.NewIdent(fmt.Sprintf("simOk%d_", *tmp))
	var pre []ast.Stmt
	var key ast.Expr = ast.NewIdent("_")
	if n.Key != nil {
		key = n.Key
	}
	recv := simCall("ChanRecv2", chv, lit(s))
	if n.Tok == token.ASSIGN && n.Key != nil {
		pre = append(pre, &ast.DeclStmt{Decl: &ast.GenDecl{Tok: token.VAR, Specs: []ast.Spec{&ast.ValueSpec{Names: []*ast.Ident{okv}, Type: ast.NewIdent("bool")}}}})
		pre = append(pre, &ast.AssignStmt{Lhs: []ast.Expr{key, okv}, Tok: token.ASSIGN, Rhs: []ast.Expr{recv}})
	} else {
		pre = append(pre, &ast.AssignStmt{Lhs: []ast.Expr{key, okv}, Tok: token.DEFINE, Rhs: []ast.Expr{recv}})
		if id, ok := key.(*ast.Ident); ok && id.Name != "_" {
			pre = append(pre, &ast.AssignStmt{Lhs: []ast.Expr{ast.NewIdent("_")}, Tok: token.ASSIGN, Rhs: []ast.Expr{ast.NewIdent(id.Name)}})
		}
	}
	pre = append(pre, &ast.IfStmt{Cond: &ast.UnaryExpr{Op: token.NOT, X: okv}, Body: &ast.BlockStmt{List: []ast.Stmt{&ast.BranchStmt{Tok: token.BREAK}}}})
	return &ast.ForStmt{
		For:  n.For,
		Init: &ast.AssignStmt{Lhs: []ast.Expr{chv}, Tok: token.DEFINE, Rhs: []ast.Expr{n.X}},
		Body: &ast.BlockStmt{Lbrace: n.Body.Lbrace, List: append(pre, n.Body.List...), Rbrace: n.Body.Rbrace},
	}
}

// for k, v := range m {B}  ->  for it := simrt.Iter(m); it.Next(); { k, v := it.KV(); B }
func rewriteMapRange(fset *token.FileSet, n *ast.RangeStmt, tmp *int) ast.Stmt {
	add("R3", fset, n.Pos(), "range over map")
	*tmp++
	it := ast.NewIdent(fmt.Sprintf("simIt%d_", *tmp))
	key, val := n.Key, n.Value
	if key == nil {
		key = ast.NewIdent("_")
	}
	if val == nil {
		val = ast.NewIdent("_")
	}
	tok := n.Tok
	if tok != token.ASSIGN {
		tok = token.DEFINE
	}
	kv := &ast.CallExpr{Fun: &ast.SelectorExpr{X: it, Sel: ast.NewIdent("KV")}}
	var pre []ast.Stmt
	isBlank := func(e ast.Expr) bool { id, ok := e.(*ast.Ident); return ok && id.Name == "_" }
	if !(isBlank(key) && isBlank(val)) {
		pre = append(pre, &ast.AssignStmt{Lhs: []ast.Expr{key, val}, Tok: tok, Rhs: []ast.Expr{kv}})
	}
	return &ast.ForStmt{
		For:  n.For,
		Init: &ast.AssignStmt{Lhs: []ast.Expr{it}, Tok: token.DEFINE, Rhs: []ast.Expr{simCall("Iter", n.X)}},
		Cond: &ast.CallExpr{Fun: &ast.SelectorExpr{X: it, Sel: ast.NewIdent("Next")}},
		Body: &ast.BlockStmt{Lbrace: n.Body.Lbrace, List: append(pre, n.Body.List...), Rbrace: n.Body.Rbrace},
	}
}

// rewriteGo turns `go f(a, b)` into
//
//	{ simF_ := f; simA0_ := a; simA1_ := b; simrt.Spawn(func() { simF_(simA0_, simA1_) }, site) }
//
// (function value and arguments are evaluated by the parent at the go
// statement, as in Go; constants and nil stay inline so they keep their
// untyped meaning). `go func() {...}()` becomes simrt.Spawn(func() {...}, site).
func rewriteGo(info *types.Info, fset *token.FileSet, n *ast.GoStmt, tmp *int) ast.Stmt {
	call := n.Call
	s := add("R6", fset, n.Pos(), "go statement")
	if fl, ok := ast.Unparen(call.Fun).(*ast.FuncLit); ok && len(call.Args) == 0 {
		return &ast.ExprStmt{X: simCall("Spawn", fl, lit(s))}
	}
	*tmp++
	var pre []ast.Stmt
	fv := ast.NewIdent(fmt.Sprintf("simF%d_", *tmp))
	pre = append(pre, &ast.AssignStmt{Lhs: []ast.Expr{fv}, Tok: token.DEFINE, Rhs: []ast.Expr{call.Fun}})
	var args []ast.Expr
	for i, a := range call.Args {
		tv := info.Types[a]
		if tv.Value != nil || tv.IsNil() {
			args = append(args, a)
			continue
		}
		av := ast.NewIdent(fmt.Sprintf("simA%d_%d_", *tmp, i))
		pre = append(pre, &ast.AssignStmt{Lhs: []ast.Expr{av}, Tok: token.DEFINE, Rhs: []ast.Expr{a}})
		args = append(args, av)
	}
	inner := &ast.CallExpr{Fun: fv, Args: args, Ellipsis: call.Ellipsis}
	if call.Ellipsis == token.NoPos {
		inner.Ellipsis = token.NoPos
	}
	body := &ast.BlockStmt{List: []ast.Stmt{&ast.ExprStmt{X: inner}}}
	spawn := &ast.ExprStmt{X: simCall("Spawn", &ast.FuncLit{Type: &ast.FuncType{Params: &ast.FieldList{}}, Body: body}, lit(s))}
	return &ast.BlockStmt{List: append(pre, spawn)}
}

// rewriteSelect turns a select statement into
//
//	{ simK0_ := simrt.RecvCase(ch0); simK1_ := simrt.SendCase(ch1, v); simSel_ := simrt.Select(site, hasDefault, simK0_, simK1_)
//	  [label:] switch simSel_.Index { case 0: x, ok := simrt.SelRecv2(simK0_, simSel_); body0  case 1: body1  default: bodyD } }
//
// break inside a clause leaves the switch exactly as it left the select;
// continue and labels keep their targets.
func rewriteSelect(fset *token.FileSet, n *ast.SelectStmt, label *ast.Ident, tmp *int) ast.Stmt {
	s := add("R1", fset, n.Pos(), "select")
	*tmp++
	id := *tmp
	selv := ast.NewIdent(fmt.Sprintf("simSel%d_", id))
	var pre []ast.Stmt
	var kases []ast.Expr
	var clauses []ast.Stmt
	hasDefault := "false"
	idx := 0
	for _, cs := range n.Body.List {
		cc := cs.(*ast.CommClause)
		if cc.Comm == nil {
			hasDefault = "true"
			clauses = append(clauses, &ast.CaseClause{Body: cc.Body})
			continue
		}
		kv := ast.NewIdent(fmt.Sprintf("simK%d_%d_", id, idx))
		var body []ast.Stmt
		switch st := cc.Comm.(type) {
		case *ast.SendStmt:
			pre = append(pre, &ast.AssignStmt{Lhs: []ast.Expr{kv}, Tok: token.DEFINE, Rhs: []ast.Expr{simCall("SendCase", st.Chan, st.Value)}})
		case *ast.ExprStmt: // case <-ch:
			u := ast.Unparen(st.X).(*ast.UnaryExpr)
			pre = append(pre, &ast.AssignStmt{Lhs: []ast.Expr{kv}, Tok: token.DEFINE, Rhs: []ast.Expr{simCall("RecvCase", u.X)}})
		case *ast.AssignStmt: // case x := <-ch / x, ok := <-ch / x = <-ch
			u := ast.Unparen(st.Rhs[0]).(*ast.UnaryExpr)
			pre = append(pre, &ast.AssignStmt{Lhs: []ast.Expr{kv}, Tok: token.DEFINE, Rhs: []ast.Expr{simCall("RecvCase", u.X)}})
			fn := "SelRecv1"
			if len(st.Lhs) == 2 {
				fn = "SelRecv2"
			}
			body = append(body, &ast.AssignStmt{Lhs: st.Lhs, Tok: st.Tok, Rhs: []ast.Expr{simCall(fn, kv, selv)}})
			if st.Tok == token.DEFINE {
				for _, l := range st.Lhs {
					if li, ok := l.(*ast.Ident); ok && li.Name != "_" {
						body = append(body, &ast.AssignStmt{Lhs: []ast.Expr{ast.NewIdent("_")}, Tok: token.ASSIGN, Rhs: []ast.Expr{ast.NewIdent(li.Name)}})
					}
				}
			}
		}
		kases = append(kases, kv)
		clauses = append(clauses, &ast.CaseClause{List: []ast.Expr{&ast.BasicLit{Kind: token.INT, Value: fmt.Sprint(idx)}}, Body: append(body, cc.Body...)})
		idx++
	}
	args := append([]ast.Expr{lit(s), ast.NewIdent(hasDefault)}, kases...)
	pre = append(pre, &ast.AssignStmt{Lhs: []ast.Expr{selv}, Tok: token.DEFINE, Rhs: []ast.Expr{simCall("Select", args...)}})
	var sw ast.Stmt = &ast.SwitchStmt{Tag: &ast.SelectorExpr{X: selv, Sel: ast.NewIdent("Index")}, Body: &ast.BlockStmt{List: clauses}}
	if label != nil {
		sw = &ast.LabeledStmt{Label: label, Stmt: sw}
	}
	return &ast.BlockStmt{List: append(pre, sw)}
}

func rewriteFile(p *packages.Package, f *ast.File, simrtPath string) bool {
	info := p.TypesInfo
	fset := p.Fset
	changed := false
	tmp := 0
	// container statements (go, select, range over map / channel) are decided on the way down, while the
	// type information still matches the tree, and rebuilt on the way up, after their bodies were rewritten
	// (astutil.Apply does not walk a replacement node)
	pending := map[ast.Node]string{}
	skip := map[ast.Node]bool{}

	// containsSyncCall: does stmt (not descending into nested blocks or
	// function literals) contain an R2 call?
	r2Site := func(n ast.Node) (token.Pos, string) {
		var pos token.Pos
		var what string
		ast.Inspect(n, func(m ast.Node) bool {
			if pos != token.NoPos {
				return false
			}
			switch mm := m.(type) {
			case *ast.FuncLit, *ast.BlockStmt:
				if m != n {
					return false
				}
			case *ast.CallExpr:
				fn := calleeFunc(info, mm)
				if fn == nil || fn.Pkg() == nil {
					return true
				}
				pk := fn.Pkg().Path()
				if pk != "sync" && pk != "sync/atomic" {
					return true
				}
				rp, rn := recvNamed(fn)
				if rp == "sync" && (rn == "Mutex" || rn == "RWMutex") {
					if _, ok := lockOps[fn.Name()]; ok {
						return true // R1
					}
				}
				if rp == "sync" && blockingOps[rn+"."+fn.Name()] != "" {
					return true // R1b
				}
				if rp == "sync" && rn == "Pool" && (fn.Name() == "Get" || fn.Name() == "Put") {
					return true // R7
				}
				if fn.Name() == "NewCond" || fn.Name() == "OnceFunc" || fn.Name() == "OnceValue" || fn.Name() == "OnceValues" {
					return true
				}
				pos, what = mm.Pos(), pk+"."+strings.TrimPrefix(rn+"."+fn.Name(), ".")
				return false
			}
			return true
		})
		return pos, what
	}

	astutil.Apply(f, func(c *astutil.Cursor) bool {
		switch n := c.Node().(type) {
		case *ast.GoStmt:
			if goRewritable(info, n) {
				pending[n] = "go"
			} else {
				add("R5", fset, n.Pos(), "go statement (not simulated: builtin, conversion or multi-value argument)")
			}
		case *ast.SelectStmt:
			if !selectRewritable(n) {
				add("R5", fset, n.Pos(), "select statement (not simulated)")
				return false
			}
			pending[n] = "select"
			// the communication of each clause is consumed by the select rewrite (on the way up);
			// it must not be rewritten as a plain channel operation
			for _, cs := range n.Body.List {
				switch st := cs.(*ast.CommClause).Comm.(type) {
				case *ast.SendStmt:
					skip[st] = true
				case *ast.ExprStmt:
					skip[st], skip[ast.Unparen(st.X)] = true, true
				case *ast.AssignStmt:
					skip[st], skip[ast.Unparen(st.Rhs[0])] = true, true
				}
			}
		case *ast.SendStmt:
			if skip[n] {
				return true
			}
			s := add("R1", fset, n.Pos(), "chan send")
			c.Replace(&ast.ExprStmt{X: simCall("ChanSend", n.Chan, n.Value, lit(s))})
			changed = true
			return true
		case *ast.AssignStmt:
			if skip[n] {
				return true
			}
			if len(n.Lhs) == 2 && len(n.Rhs) == 1 {
				if u, ok := ast.Unparen(n.Rhs[0]).(*ast.UnaryExpr); ok && u.Op == token.ARROW {
					s := add("R1", fset, u.Pos(), "chan receive (v, ok)")
					n.Rhs[0] = simCall("ChanRecv2", u.X, lit(s))
					changed = true
				}
			}
		case *ast.ValueSpec:
			if len(n.Names) == 2 && len(n.Values) == 1 {
				if u, ok := ast.Unparen(n.Values[0]).(*ast.UnaryExpr); ok && u.Op == token.ARROW {
					s := add("R1", fset, u.Pos(), "chan receive (v, ok)")
					n.Values[0] = simCall("ChanRecv2", u.X, lit(s))
					changed = true
				}
			}
		case *ast.UnaryExpr:
			if n.Op == token.ARROW && !skip[n] {
				if t := info.TypeOf(n.X); t != nil {
					if _, ok := t.Underlying().(*types.Chan); ok {
						s := add("R1", fset, n.Pos(), "chan receive")
						c.Replace(simCall("ChanRecv1", n.X, lit(s)))
						changed = true
						return true
					}
				}
			}
		case *ast.RangeStmt:
			if t := info.TypeOf(n.X); t != nil {
				if _, isChan := t.Underlying().(*types.Chan); isChan {
					pending[n] = "chanrange"
				} else if _, ok := t.Underlying().(*types.Map); ok {
					pending[n] = "maprange"
				}
			}
		case *ast.CallExpr:
			if id, ok := ast.Unparen(n.Fun).(*ast.Ident); ok && id.Name == "close" && len(n.Args) == 1 {
				if _, isBuiltin := info.Uses[id].(*types.Builtin); isBuiltin {
					s := add("R1", fset, n.Pos(), "chan close")
					n.Fun = &ast.SelectorExpr{X: ast.NewIdent("simrt"), Sel: ast.NewIdent("ChanClose")}
					n.Args = append(n.Args, lit(s))
					changed = true
					return true
				}
			}
			fn := calleeFunc(info, n)
			if fn == nil || fn.Pkg() == nil {
				return true
			}
			pk := fn.Pkg().Path()
			rp, rn := recvNamed(fn)
			switch {
			case rp == "sync" && (rn == "Mutex" || rn == "RWMutex") && lockOps[fn.Name()] != "":
				se, ok := ast.Unparen(n.Fun).(*ast.SelectorExpr)
				if !ok {
					return true
				}
				recv := lockReceiver(info, se)
				if recv == nil {
					add("R5", fset, n.Pos(), "lock op with unresolvable receiver")
					return true
				}
				s := add("R1", fset, n.Pos(), rn+"."+fn.Name())
				n.Fun = &ast.SelectorExpr{X: ast.NewIdent("simrt"), Sel: ast.NewIdent(lockOps[fn.Name()])}
				n.Args = []ast.Expr{recv, lit(s)}
				changed = true
			case rp == "sync" && rn == "Pool" && (fn.Name() == "Get" || fn.Name() == "Put"):
				se, ok := ast.Unparen(n.Fun).(*ast.SelectorExpr)
				if !ok {
					return true
				}
				recv := lockReceiver(info, se)
				if recv == nil {
					add("R5", fset, n.Pos(), "sync.Pool op with unresolvable receiver")
					return true
				}
				s := add("R7", fset, n.Pos(), "Pool."+fn.Name())
				n.Fun = &ast.SelectorExpr{X: ast.NewIdent("simrt"), Sel: ast.NewIdent("Pool" + fn.Name())}
				n.Args = append(append([]ast.Expr{recv}, n.Args...), lit(s))
				changed = true
			case rp == "sync" && blockingOps[rn+"."+fn.Name()] != "":
				se, ok := ast.Unparen(n.Fun).(*ast.SelectorExpr)
				if !ok {
					return true
				}
				recv := lockReceiver(info, se)
				if recv == nil {
					add("R5", fset, n.Pos(), "sync op with unresolvable receiver")
					return true
				}
				s := add("R1", fset, n.Pos(), rn+"."+fn.Name())
				n.Fun = &ast.SelectorExpr{X: ast.NewIdent("simrt"), Sel: ast.NewIdent(blockingOps[rn+"."+fn.Name()])}
				n.Args = append(append([]ast.Expr{recv}, n.Args...), lit(s))
				changed = true
			case rp == "reflect" && rn == "Value" && fn.Name() == "MapKeys":
				if par, ok := c.Parent().(*ast.CallExpr); ok {
					if se, ok := par.Fun.(*ast.SelectorExpr); ok {
						if id, ok := se.X.(*ast.Ident); ok && id.Name == "simrt" {
							return true
						}
					}
				}
				add("R4", fset, n.Pos(), "reflect.Value.MapKeys")
				c.Replace(simCall("OrderValues", n))
				changed = true
				return false
			case rp == "reflect" && rn == "Value" && fn.Name() == "MapRange":
				// *simrt.ReflectIt has the Next/Key/Value methods of *reflect.MapIter;
				// if the code names the type explicitly the build fails (exit 2), never silently
				se, ok := ast.Unparen(n.Fun).(*ast.SelectorExpr)
				if !ok {
					add("R5", fset, n.Pos(), "reflect.Value.MapRange")
					return true
				}
				add("R4", fset, n.Pos(), "reflect.Value.MapRange")
				c.Replace(simCall("MapRange", se.X))
				changed = true
				return false
			case rp == "sync" && rn == "Map" && fn.Name() == "Range":
				add("R5", fset, n.Pos(), "sync.Map.Range")
			case pk == "time" && rp == "" && (fn.Name() == "Now" || fn.Name() == "Sleep" || fn.Name() == "After" || fn.Name() == "AfterFunc" || fn.Name() == "NewTimer" || fn.Name() == "NewTicker" || fn.Name() == "Tick" || fn.Name() == "Since" || fn.Name() == "Until"):
				add("R5", fset, n.Pos(), "time."+fn.Name())
			case pk == "math/rand" || pk == "math/rand/v2" || pk == "crypto/rand":
				add("R5", fset, n.Pos(), pk+"."+fn.Name())
			case pk == "os" && (fn.Name() == "Getenv" || fn.Name() == "LookupEnv" || fn.Name() == "Environ"):
				add("R5", fset, n.Pos(), "os."+fn.Name())
			}
		}
		return true
	}, func(c *astutil.Cursor) bool {
		switch n := c.Node().(type) {
		case *ast.GoStmt:
			if pending[n] == "go" {
				c.Replace(rewriteGo(info, fset, n, &tmp))
				changed = true
				return true
			}
		case *ast.SelectStmt:
			if pending[n] == "select" {
				if _, labeled := c.Parent().(*ast.LabeledStmt); labeled {
					return true // rebuilt together with its label, one level up
				}
				c.Replace(rewriteSelect(fset, n, nil, &tmp))
				changed = true
				return true
			}
		case *ast.LabeledStmt:
			if sel, ok := n.Stmt.(*ast.SelectStmt); ok && pending[sel] == "select" {
				c.Replace(rewriteSelect(fset, sel, n.Label, &tmp))
				changed = true
				return true
			}
		case *ast.RangeStmt:
			switch pending[n] {
			case "chanrange":
				c.Replace(rewriteChanRange(fset, n, &tmp))
				changed = true
				return true
			case "maprange":
				c.Replace(rewriteMapRange(fset, n, &tmp))
				changed = true
				return true
			}
		}
		// R2 on the way up, for statements that sit directly in a block.
		st, ok := c.Node().(ast.Stmt)
		if !ok || c.Index() < 0 {
			return true
		}
		switch st.(type) {
		case *ast.BlockStmt, *ast.LabeledStmt, *ast.CaseClause, *ast.CommClause:
			return true
		}
		if _, ok := c.Parent().(*ast.BlockStmt); !ok {
			if _, ok := c.Parent().(*ast.CaseClause); !ok {
				if _, ok := c.Parent().(*ast.CommClause); !ok {
					return true
				}
			}
		}
		var probe ast.Node = st
		switch s := st.(type) {
		case *ast.IfStmt:
			// only init/cond; bodies are blocks handled on their own
			probe = &ast.BlockStmt{List: []ast.Stmt{&ast.ExprStmt{X: s.Cond}}}
			if s.Init != nil {
				probe.(*ast.BlockStmt).List = append(probe.(*ast.BlockStmt).List, s.Init)
			}
		case *ast.SwitchStmt:
			// only init/tag; the clauses' statements are handled on their own
			b := &ast.BlockStmt{}
			if s.Tag != nil {
				b.List = append(b.List, &ast.ExprStmt{X: s.Tag})
			}
			if s.Init != nil {
				b.List = append(b.List, s.Init)
			}
			probe = b
		case *ast.ForStmt, *ast.RangeStmt, *ast.TypeSwitchStmt, *ast.SelectStmt:
			return true
		}
		if pos, what := r2Site(probe); pos != token.NoPos {
			s := add("R2", fset, pos, what)
			c.InsertBefore(&ast.ExprStmt{X: simCall("Yield", lit(s))})
			changed = true
		}
		return true
	})

	if changed {
		astutil.AddNamedImport(fset, f, "simrt", simrtPath)
	}
	return changed
}

package fix

import (
	"fmt"
	"reflect"
	"testing"

	"example.com/fix/simrt"
)

type lcg struct{ x uint64 }

func (l *lcg) Pick(n int) int {
	l.x = l.x*6364136223846793005 + 1442695040888963407
	return int((l.x >> 33) % uint64(n))
}

func underSim(t *testing.T, seed uint64, pol simrt.Policy, f func()) *simrt.Sim {
	simrt.SetMapOrder(simrt.Shuffled, seed)
	sim := simrt.NewSim(&lcg{seed}, simrt.Options{Policy: pol, StickyPct: 60, PCTDepth: 3, PCTEst: 200, MaxSteps: 200000})
	sim.Go("main", f)
	if err := sim.Run(); err != nil {
		t.Fatalf("seed %d: %v", seed, err)
	}
	return sim
}

func TestFixture(t *testing.T) {
	wantF := FanOut(4)
	wantP := Pipeline(12)
	wx, ws := Offer()
	wantPool := Pooled(6)
	if wantPool != 0+0+1+3+6+10+15 {
		t.Fatalf("plain run: pooled %d", wantPool)
	}
	if wantF != 1+2+3+4+2*(1+2+3+4)+400+1 || len(wantP) != 9 || wx != 3 || ws != "x" {
		t.Fatalf("plain run: %d %v %d %q", wantF, wantP, wx, ws)
	}
	sigs := map[uint64]bool{}
	spawned := 0
	for seed := uint64(1); seed <= 300; seed++ {
		pol := simrt.Policy(seed % 4)
		var gotF, gx int
		var gotP []int
		var gs string
		sim := underSim(t, seed, pol, func() {
			gotF = FanOut(4)
			gotP = Pipeline(12)
			gx, gs = Offer()
			if got := Pooled(6); got != wantPool {
				panic(fmt.Sprintf("simulated Pooled = %d", got))
			}
		})
		if gotF != wantF || !reflect.DeepEqual(gotP, wantP) || gx != wx || gs != ws {
			t.Fatalf("seed %d: simulated run differs: %d %v %d %q", seed, gotF, gotP, gx, gs)
		}
		if sim.Leaked != 0 {
			t.Fatalf("seed %d: leaked %d", seed, sim.Leaked)
		}
		spawned += sim.Spawned
		sigs[sim.Sig] = true
		// replay: same seed, same schedule
		sim2 := underSim(t, seed, pol, func() { FanOut(4); Pipeline(12); Offer(); Pooled(6) })
		if sim2.Sig != sim.Sig || sim2.Steps != sim.Steps {
			t.Fatalf("seed %d: replay diverged (%d/%d steps)", seed, sim.Steps, sim2.Steps)
		}
	}
	if spawned != 300*(13+3+1+6) || len(sigs) < 100 {
		t.Fatalf("spawned=%d distinct schedules=%d", spawned, len(sigs))
	}
	if simrt.PoolReuses == 0 || simrt.PoolReuses == simrt.PoolGets {
		t.Fatalf("pool: %d gets, %d reuses", simrt.PoolGets, simrt.PoolReuses)
	}
	fmt.Printf("FIXTURE OK spawned=%d distinct_schedules=%d pool_gets=%d pool_reuses=%d\n", spawned, len(sigs), simrt.PoolGets, simrt.PoolReuses)
}

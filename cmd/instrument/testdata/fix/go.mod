module example.com/fix

go 1.21

// Package fix exercises every construct the instrumenter rewrites; the test
// runs each function plainly and under the simulator and compares.
package fix

import (
	"sort"
	"sync"
)

type acc struct {
	mu sync.Mutex
	n  int
}

func (a *acc) add(d int, wg *sync.WaitGroup) {
	defer wg.Done()
	a.mu.Lock()
	a.n += d
	a.mu.Unlock()
}

func addTo(a *acc, wg *sync.WaitGroup, ds ...int) {
	defer wg.Done()
	for _, d := range ds {
		a.mu.Lock()
		a.n += d
		a.mu.Unlock()
	}
}

// FanOut: go with method value, with arguments, variadic, constants, nil, closure.
func FanOut(n int) int {
	a := &acc{}
	var wg sync.WaitGroup
	for i := 1; i <= n; i++ {
		wg.Add(3)
		go a.add(i, &wg)
		go addTo(a, &wg, []int{i, i}...)
		go func(k int64, p *int) {
			defer wg.Done()
			if p == nil {
				a.mu.Lock()
				a.n += int(k)
				a.mu.Unlock()
			}
		}(100, nil)
	}
	wg.Add(1)
	go func() {
		defer wg.Done()
		a.mu.Lock()
		a.n++
		a.mu.Unlock()
	}()
	wg.Wait()
	return a.n
}

// Pipeline: range over channel, close, select with send/recv/default, labels, break, continue.
func Pipeline(n int) []int {
	src := make(chan int)
	sq := make(chan int, 2)
	done := make(chan struct{})
	var out []int
	go func() {
		for i := 0; i < n; i++ {
			src <- i
		}
		close(src)
	}()
	go func() {
		for v := range src {
			if v%5 == 4 {
				continue
			}
			sq <- v * v
		}
		close(sq)
	}()
	go func() {
		defer close(done)
		idle := 0
	loop:
		for {
			select {
			case v, ok := <-sq:
				if !ok {
					break loop
				}
				if v == 1 {
					break // leaves the select only
				}
				out = append(out, v)
			default:
				// nothing buffered right now: wait for one value (no busy polling: a priority scheduler
				// would never leave a spinning task)
				idle++
				v, ok := <-sq
				if !ok {
					break loop
				}
				if v != 1 {
					out = append(out, v)
				}
			}
		}
	}()
	<-done
	sort.Ints(out)
	return out
}

// Offer: select with send cases, one of several ready, value receive forms.
func Offer() (int, string) {
	a := make(chan int, 1)
	b := make(chan string, 1)
	quit := make(chan struct{})
	res := make(chan int)
	go func() {
		n := 0
		ca, cb := a, b // a nil channel is never ready: each is served once
		for {
			select {
			case ca <- 1:
				n++
				ca = nil
			case cb <- "x":
				n++
				cb = nil
			case <-quit:
				res <- n
				return
			}
			if n >= 2 {
				var q struct{}
				q = <-quit
				_ = q
				res <- n
				return
			}
		}
	}()
	var x int
	var s string
L:
	select {
	case x = <-a:
		s = <-b
		break L
	case s = <-b:
		x = <-a
	}
	close(quit)
	return x + <-res, s
}

type scratch struct{ buf []int }

var scratchPool = sync.Pool{New: func() interface{} { return &scratch{} }}

// Pooled: objects travel between goroutines through a sync.Pool and nothing else; the pool's Put -> Get edge is
// the only thing that orders one user's writes with the next user's.
func Pooled(n int) int {
	var wg sync.WaitGroup
	var mu sync.Mutex
	total := 0
	for i := 1; i <= n; i++ {
		wg.Add(1)
		go func(k int) {
			defer wg.Done()
			s := scratchPool.Get().(*scratch)
			s.buf = s.buf[:0]
			for j := 0; j < k; j++ {
				s.buf = append(s.buf, j)
			}
			sum := 0
			for _, v := range s.buf {
				sum += v
			}
			scratchPool.Put(s)
			mu.Lock()
			total += sum
			mu.Unlock()
		}(i)
	}
	wg.Wait()
	return total
}
